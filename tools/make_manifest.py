#!/usr/bin/env python3
"""Regenerate /verif/MANIFEST.json from the property modules that exist (props/cNN.py) and
validate it against the schema.  Properties without a module are listed under
not_applicable with the reason given in NOT_BUILT below (kept current by hand)."""
import importlib
import json
import os
import sys

VERIF = os.path.dirname(os.path.dirname(os.path.abspath(__file__)))
sys.path.insert(0, VERIF)

NOT_BUILT = {}

SETUP = ("/venv/bin/python -c 'import hypothesis, numpy, pandas' 2>/dev/null || "
         "/venv/bin/pip install --no-index --find-links /opt/veriftools/wheels hypothesis; "
         "/venv/bin/python -c 'import hypothesis, numpy, pandas; print(\"deps ok\", hypothesis.__version__)' && "
         "chmod +x /verif/check /verif/tools/mutation_run")


def main():
    props = [json.loads(l) for l in open(os.path.join(VERIF, "properties.jsonl"))]
    checks, na = [], []
    for pr in props:
        pid = pr["id"]
        path = os.path.join(VERIF, "props", pid.lower() + ".py")
        if not os.path.exists(path):
            na.append({"property_id": pid, "reason": NOT_BUILT.get(pid, "check not built yet in this round (planned in DESIGN.md section 4); nothing is claimed for it")})
            continue
        src = open(path).read()
        meta = {}
        # the modules import numpy/hypothesis; read their metadata without importing the library
        for key in ("LEVEL_TEXT", "LEVEL_NOTE", "TECHNIQUE", "DESIGN_REF"):
            meta[key] = None
        ns = {}
        for line_key in ("LEVEL_TEXT", "LEVEL_NOTE", "TECHNIQUE", "DESIGN_REF"):
            pass
        try:
            sys.path.insert(0, os.environ.get("VERIF_REPO", "/repo"))
            mod = importlib.import_module("props." + pid.lower())
            for key in meta:
                meta[key] = getattr(mod, key, None)
        except Exception as e:  # noqa: BLE001
            raise SystemExit("cannot import props.%s: %r" % (pid.lower(), e))
        checks.append({
            "property_id": pid,
            "quick_cmd": "./check %s --tier quick" % pid,
            "thorough_cmd": "./check %s --tier thorough" % pid,
            "evidence_file": "/verif/evidence/%s.json" % pid,
            "replay_cmd_template": "./check %s --replay {path}" % pid,
            "engine": "pbt-runner",
            "level_claimed": {
                "category": "exploration",
                "text": meta["LEVEL_TEXT"] or "generated-input search against an explicit oracle; see DESIGN.md",
                "design_ref": meta["DESIGN_REF"] or "DESIGN.md section 4, %s" % pid,
            },
            "level_note": meta["LEVEL_NOTE"] or "trusted base: the oracle code in /verif/harness and numpy; no absence proof",
            "technique": meta["TECHNIQUE"] or "property-based testing (Hypothesis + exhaustive small-domain enumeration) against an independent oracle",
        })
    manifest = {
        "version": 1,
        "setup_cmd": SETUP,
        "hooks": {
            "guard": "SEMPLER_VERIF",
            "enable": "no source hooks are needed: checks import sempler straight from /repo's working tree (VERIF_REPO overrides the path); the only substitution is the stand-in rpy2 package in /verif/harness/fake_rpy2 put on sys.path by the checker",
            "baseline_off_cmd": "cd /repo && /venv/bin/python -m pytest -ra -q -p no:cacheprovider --timeout=900 --continue-on-collection-errors",
            "source_commits": [],
            "add_only": True,
        },
        "engines": [{
            "name": "pbt-runner",
            "path": "/verif/harness/runner.py",
            "serves_properties": [c["property_id"] for c in checks],
            "kind_free_text": "property-based testing: Hypothesis 6.168 strategies (seeded from VERIF_SEED, sharded over 16 processes, shrinking on) and exhaustive enumeration of small finite domains, both feeding plain check(case) functions judged by independent oracles (bitset brute force for graphs, Fraction linear algebra for Gaussians, bounded-false-alarm statistics for samplers, rule-based state machines for histories)",
        }],
        "checks": checks,
        "not_applicable": na,
        "notes": "Genuine defects found on the pinned tree were repaired by 'fix:' commits in /repo and are listed as 'fixed:' lines in /verif/KNOWN_FINDINGS.txt; see DESIGN.md section 5. Regression replays live in /verif/replays, seeded breaking changes in /verif/seeded and /verif/mutants.",
    }
    out = os.path.join(VERIF, "MANIFEST.json")
    with open(out, "w") as f:
        json.dump(manifest, f, indent=1)
    try:
        import jsonschema
        jsonschema.validate(manifest, json.load(open("/root/.vp/MANIFEST.schema.json")))
        print("MANIFEST.json valid: %d checks, %d not_applicable" % (len(checks), len(na)))
    except ImportError:
        print("MANIFEST.json written (jsonschema not available for validation): %d checks" % len(checks))


if __name__ == "__main__":
    main()
