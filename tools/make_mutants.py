#!/usr/bin/env python3
"""Generate the hand-written sensitivity mutants under /verif/mutants/<name>/ (patch.diff + props).

Each mutant is a small source change taken from the 'changes the check must catch' lists of
DESIGN.md section 4.  They are sensitivity tests for the checks (they need not pass the
repository's own tests, unlike the independently seeded changes under /verif/seeded).
The patches are produced against /repo HEAD in a scratch worktree outside /repo and /verif.
"""
import os
import subprocess
import sys
import tempfile

VERIF = os.path.dirname(os.path.dirname(os.path.abspath(__file__)))
L, A, N, G_, U, ND, SM = ("sempler/lganm.py", "sempler/anm.py", "sempler/noise.py", "sempler/generators.py", "sempler/utils.py",
                         "sempler/normal_distribution.py", "sempler/semi.py")

# (name, properties, file, old, new)
M = [
    ("C01_shift_replaces", "C01", L, "means[targets] += shift_interventions[:, 1]", "means[targets] = shift_interventions[:, 1]"),
    ("C01_do_keeps_edges", "C01 C06", L, "            W[:, targets] = 0\n", "            pass\n"),
    ("C01_do_cuts_outgoing", "C01", L, "            W[:, targets] = 0\n", "            W[targets, :] = 0\n"),
    ("C01_scalar_var1", "C01", L, "interventions.append([target, params, 0])", "interventions.append([target, params, 1])"),
    ("C01_diag_std", "C01 C04", L, "A @ np.diag(variances) @ A.T", "A @ np.diag(variances**0.5) @ A.T"),
    ("C01_transposed_W", "C01", L, "np.linalg.inv(np.eye(self.p) - W.T)", "np.linalg.inv(np.eye(self.p) - W)"),
    ("C01_noise_overrides_do", "C01", L,
     "            means[targets] = do_interventions[:, 1]\n            variances[targets] = do_interventions[:, 2]\n",
     "            noise_targets = set(noise_interventions[:, 0].astype(int)) if noise_interventions is not None and len(noise_interventions) else set()\n"
     "            own = np.array([t not in noise_targets for t in targets])\n"
     "            means[targets[own]] = do_interventions[own, 1]\n            variances[targets[own]] = do_interventions[own, 2]\n"),
    ("C01_ranges_single_draw", "C01", L, "            self.means = rng.uniform(means[0], means[1], size=self.p)",
     "            self.means = np.full(self.p, rng.uniform(means[0], means[1]))"),
    ("C02_do_ignored_if_shift", "C02", A, "            if i in do_interventions:", "            if i in do_interventions and i not in shift_interventions:"),
    ("C02_noise_adds", "C02", A, "                    noise = noise_interventions[i](n)", "                    noise = self.noise_distributions[i](n) + noise_interventions[i](n)"),
    ("C02_children_columns", "C02", A, "X[:, self.A[:, i] != 0]", "X[:, self.A[i, :] != 0]"),
    ("C02_shift_only", "C02 C04", A, "noise = self.noise_distributions[i](n) + shift_interventions[i](n)", "noise = shift_interventions[i](n)"),
    ("C03_gt0", "C03", U, "    A = (A != 0).astype(int)\n    # Check that there are no undirected", "    A = (A > 0).astype(int)\n    # Check that there are no undirected"),
    ("C03_no_leftover_check", "C03", U, "    if A.sum() > 0:\n        raise ValueError(\"The given graph is not a DAG\")\n    else:\n        return ordering",
     "    return ordering"),
    ("C03_reversed", "C03 C02", U, "    else:\n        return ordering\n", "    else:\n        return ordering[::-1]\n"),
    ("C03_lganm_no_gate", "C03", L, "        if not utils.is_dag(W):\n            raise ValueError(\"The given graph is not a DAG.\")\n", ""),
    ("C04_cov_squared", "C04", ND, "np.random.multivariate_normal(self.mean, self.covariance, size=n)", "np.random.multivariate_normal(self.mean, self.covariance @ self.covariance, size=n)"),
    ("C04_tile_one_row", "C04", ND, "return np.random.multivariate_normal(self.mean, self.covariance, size=n)",
     "return np.tile(np.random.multivariate_normal(self.mean, self.covariance, size=1), (n, 1))"),
    ("C04_n_minus_1", "C04", ND, "np.random.multivariate_normal(self.mean, self.covariance, size=n)", "np.random.multivariate_normal(self.mean, self.covariance, size=max(n - 1, 0))"),
    ("C05_sorted_marginal", "C05", ND, "        X = np.atleast_1d(X)\n        # Compute marginal mean/variance", "        X = np.sort(np.atleast_1d(X))\n        # Compute marginal mean/variance"),
    ("C05_sorted_conditional", "C05", ND, "        Y = np.atleast_1d(Y)\n        X = np.atleast_1d(X)\n        x = np.atleast_1d(x)", "        Y = np.sort(np.atleast_1d(Y))\n        X = np.atleast_1d(X)\n        x = np.atleast_1d(x)"),
    ("C05_no_disjoint_check", "C05", ND, "        if len(set(Y) & set(X)) > 0:\n            raise ValueError(\"X and Y are not disjoint.\")\n", ""),
    ("C05_no_len_check", "C05", ND, "        if len(X) != len(x):\n            raise ValueError(\"Mismatch in the size of X and x.\")\n", ""),
    ("C05_sign", "C05", ND, "np.linalg.inv(cov_x) @ (x - mean_x)", "np.linalg.inv(cov_x) @ (mean_x - x)"),
    ("C05_no_size_check", "C05", ND, "        if len(mean) != len(covariance):\n            raise ValueError(\"Mismatch in the size of mean vector and covariance matrix.\")\n", ""),
    ("C06_intercept", "C06", ND, "intercept = self.mean[y] - coefs @ self.mean", "intercept = self.mean[y]"),
    ("C06_sorted_scatter", "C06", ND, "coefs[Xs] = np.linalg.solve(cov_xs, cov_y_xs)", "coefs[np.sort(Xs)] = np.linalg.solve(cov_xs, cov_y_xs)"),
    ("C06_mse_factor", "C06", ND, "- 2 * cov[y, :] @ coefs_xs.T", "- cov[y, :] @ coefs_xs.T"),
    ("C07_no_vstruct_test", "C07 C09", U, "return same_vstructures and same_orientation and same_skeleton", "return same_orientation and same_skeleton"),
    ("C07_no_orientation_test", "C07", U, "return same_vstructures and same_orientation and same_skeleton", "return same_vstructures and same_skeleton"),
    ("C07_chain_off_by_one", "C07 C10", U, "        for j in range(i, 0, -1):\n            A[j, j - 1] = 1", "        for j in range(i - 1, 0, -1):\n            A[j, j - 1] = 1"),
    ("C07_vstruct_half_adjacency", "C07 C16", U, "            if A[i, j] == 0 and A[j, i] == 0:", "            if A[i, j] == 0:"),
    ("C08_z_exists", "C08", U, "z_exists = len(pa(y, labelled) - {x} - pa(x, labelled)) > 0", "z_exists = len(pa(y, labelled) - {x}) > 0"),
    ("C08_sort_direction", "C08", U, "        x = sort(unlabelled_parents_y, order)[0]", "        x = sort(unlabelled_parents_y, order)[-1]"),
    ("C09_chickering_sink", "C09 C08", U, "            adj_neighbors = np.all([adj_i - {y} <= adj(y, P) for y in n_i])", "            adj_neighbors = is_clique(n_i | pa(i, P), P)"),
    ("C09_no_rule2", "C09 C10", U, "    return len(ch(i, A) & pa(j, A)) > 0", "    return False"),
    ("C09_no_rule3", "C09", U, "    if len(intersection) >= 2:\n        for k in intersection:", "    if False:\n        for k in intersection:"),
    ("C09_no_rule4", "C09", U, "    Ks = pa_j & n_i\n    if len(Ks) > 0:", "    Ks = pa_j & n_i\n    if False:"),
    ("C09_rule1_wrong_adj", "C09", U, "not pa(i, A) <= adj(j, A)", "not pa(i, A) <= adj(i, A)"),
    ("C10_only_children", "C10", U, "        directed_edges += [(j, i) for j in pa(i, G)]\n", ""),
    ("C10_skip_meek", "C10", U, "        P[y, x] = 0\n        P = maximally_orient(P, debug)", "        P[y, x] = 0"),
    ("C10_I_ignored", "C10", U, "        icpdag = dag_to_icpdag(A, I)\n        return all_dags(icpdag)", "        icpdag = dag_to_cpdag(A)\n        return all_dags(icpdag)"),
    ("C11_perm_not_inverse", "C11", G_, "        return (W[permutation, :][:, permutation], np.argsort(permutation))\n    else:\n        return W[permutation, :][:, permutation]\n\n\ndef dag_full",
     "        return (W[permutation, :][:, permutation], permutation)\n    else:\n        return W[permutation, :][:, permutation]\n\n\ndef dag_full"),
    ("C11_prob_k_over_p", "C11", G_, "    prob = k / (p - 1)", "    prob = k / p"),
    ("C11_triu0", "C11", G_, "    A = np.triu(A, k=1)\n", "    A = np.triu(A, k=0)\n"),
    ("C11_no_permutation", "C11", G_, "    permutation = rng.permutation(p)\n    # Note the actual topological ordering is the \"conjugate\" of permutation eg. [3,1,2] -> [2,3,1]\n    print(",
     "    permutation = np.arange(p)\n    # Note the actual topological ordering is the \"conjugate\" of permutation eg. [3,1,2] -> [2,3,1]\n    print("),
    ("C11_weights_from_zero", "C11", G_, "    weights = rng.uniform(w_min, w_max, size=A.shape)\n    W = A * weights\n\n", "    weights = rng.uniform(0, w_max, size=A.shape)\n    W = A * weights\n\n"),
    ("C11_full_triu2", "C11", G_, "    A = np.triu(np.ones((p, p)), k=1)", "    A = np.triu(np.ones((p, p)), k=2)"),
    ("C12_exclusive_hi", "C12", G_, "sizes = rng.integers(size[0], size[1] + 1, K)", "sizes = rng.integers(size[0], max(size[1], size[0] + 1), K)"),
    ("C12_ge_replace", "C12", G_, "        if max_size * K > p:", "        if max_size * K >= p:"),
    ("C12_ge_max", "C12", G_, "    if max_size > p:", "    if max_size >= p:"),
    ("C12_replacement_inside", "C12", G_, "            intervention = list(rng.choice(targets, size=sizes[i], replace=False))", "            intervention = list(rng.choice(targets, size=sizes[i], replace=True))"),
    ("C12_pool_not_shrunk", "C12", G_, "            remaining_targets -= set(intervention)\n", ""),
    ("C12_K_minus_1", "C12", G_, "        targets = list(range(p))\n        for i, k in enumerate(range(K)):", "        targets = list(range(p))\n        for i, k in enumerate(range(K - 1)):"),
    ("C13_normal_if_seed", "C13", ND, "np.random.seed(random_state) if random_state is not None else None", "np.random.seed(random_state) if random_state else None"),
    ("C13_anm_if_seed", "C13", A, "np.random.seed(random_state) if random_state is not None else None", "np.random.seed(random_state) if random_state else None"),
    ("C13_dag_avg_deg_seed0", "C13", G_, "    rng = np.random.default_rng(random_state)\n    # Generate adjacency matrix as if", "    rng = np.random.default_rng(random_state if random_state else None)\n    # Generate adjacency matrix as if"),
    ("C13_split_unseeded", "C13 C17", U, "    folds = dict((i, []) for i in range(n_folds))\n    rng = np.random.default_rng(random_state)", "    folds = dict((i, []) for i in range(n_folds))\n    rng = np.random.default_rng()"),
    ("C13_targets_sizes_global", "C13", G_, "        sizes = rng.integers(size[0], size[1] + 1, K)", "        sizes = np.random.randint(size[0], size[1] + 1, K)"),
    ("C13_lganm_ranges_global", "C13", L, "            self.means = rng.uniform(means[0], means[1], size=self.p)", "            self.means = np.random.uniform(means[0], means[1], size=self.p)"),
    ("C14_lganm_init_no_copy", "C14", L, "        self.W = W.copy()", "        self.W = W"),
    ("C14_lganm_sample_no_copy", "C14 C01", L, "        W = self.W.copy()\n        variances", "        W = self.W\n        variances"),
    ("C14_lganm_means_no_copy", "C14", L, "            self.means = means.copy()", "            self.means = means"),
    ("C14_normal_no_copy", "C14", ND, "        self.covariance = covariance.copy()", "        self.covariance = covariance"),
    ("C14_anm_no_deepcopy", "C14", A, "        self.A = deepcopy(A)", "        self.A = A"),
    ("C14_anm_noise_list_shared", "C14", A, "        self.noise_distributions = deepcopy(noise_distributions)", "        self.noise_distributions = noise_distributions"),
    ("C14_maximally_orient_inplace", "C14", U, "        raise e\n    P = P.copy()\n", "        raise e\n"),
    ("C14_split_shuffles_input", "C14 C17", U, "        sample = sample.copy()\n        rng.shuffle(sample)", "        rng.shuffle(sample)"),
    ("C14_marginal_view", "C14", ND, "        mean = self.mean[X]\n        covariance = utils.matrix_block(self.covariance, X, X)\n        return NormalDistribution(mean, covariance)",
     "        mean = self.mean[X]\n        covariance = utils.matrix_block(self.covariance, X, X)\n        if len(X) == self.p and (X == np.arange(self.p)).all():\n            return self\n        return NormalDistribution(mean, covariance)"),
    ("C15_neighbors_or", "C15", U, "    return set(np.where(np.logical_and(A[i, :] != 0, A[:, i] != 0))[0])", "    return set(np.where(np.logical_or(A[i, :] != 0, A[:, i] != 0))[0])"),
    ("C15_desc_no_self", "C15", U, "    desc = {i}\n    for j in ch(i, A):\n        desc |= descendants(j, A)", "    desc = set(ch(i, A))\n    for j in ch(i, A):\n        desc |= descendants(j, A)"),
    ("C15_separates_first_path", "C15", U, "                if set(path) & S == set():\n                    return False", "                return set(path) & S != set()"),
    ("C15_component_follows_directed", "C15", U, "    A = only_undirected(G)\n    visited = set()", "    A = G + G.T\n    visited = set()"),
    ("C15_paths_global_visited", "C15", U,
     "            stack = [(next_node, visited + [current_node], next_to_visit)] + stack\n    return paths",
     "            if next_node == to or next_node not in accessible.setdefault('expanded', set()):\n"
     "                accessible['expanded'].add(next_node)\n"
     "                stack = [(next_node, visited + [current_node], next_to_visit)] + stack\n    return paths"),
    ("C16_shielded_colliders", "C16 C07", U, "            if A[i, j] == 0 and A[j, i] == 0:", "            if True:"),
    ("C16_moral_asymmetric", "C16", U, "        moral[i, j] = 1\n        moral[j, i] = 1", "        moral[i, j] = 1"),
    ("C16_induced_rows_only", "C16", U, "    mask = np.logical_and(mask, mask.T)\n", ""),
    ("C16_skeleton_positive", "C16", U, "    return ((A + A.T) != 0).astype(int)", "    return ((A + A.T) > 0).astype(int)"),
    ("C16_weights_to_one", "C16", U, "    mask = np.logical_and(P != 0, P.T == 0)\n    G = np.zeros_like(P)\n    # set to the same values in case P is a weight matrix and there is\n    # interest in maintaining the weights\n    G[mask] = P[mask]",
     "    mask = np.logical_and(P != 0, P.T == 0)\n    G = np.zeros_like(P)\n    G[mask] = 1"),
    ("C16_edge_weights_positive", "C16", U, "    fro, to = np.where(W != 0)\n    edges = list(zip(fro, to))", "    fro, to = np.where(W > 0)\n    edges = list(zip(fro, to))"),
    ("C17_no_shuffle", "C17", U, "        sample = sample.copy()\n        rng.shuffle(sample)", "        sample = sample.copy()"),
    ("C17_floor_sizes", "C17", U, "                fold_size = round(n * ratio)", "                fold_size = int(n * ratio)"),
    ("C18_ge_feasibility", "C18", U, "    if no_edges > can_add:", "    if no_edges >= can_add and no_edges > 0:"),
    ("C18_remove_le", "C18", U, "    if len(edges) < no_edges:", "    if len(edges) <= no_edges and no_edges > 0:"),
    ("C18_half_pairs", "C18", U, "    fro, to = np.where((A + A.T + np.eye(len(A))) == 0)", "    fro, to = np.where(np.triu((A + A.T + np.eye(len(A))) == 0))"),
    ("C18_remove_with_replacement", "C18", U, "rng.choice(edges, no_edges, replace=False)", "rng.choice(edges, no_edges, replace=True)"),
    ("C18_no_acyclicity_guard", "C18", U, "        if is_dag(next_supergraph):", "        if True:"),
    ("C19_original_parents", "C19", SM, "new_data = pd.DataFrame(sample[:, sorted(parents)])", "new_data = pd.DataFrame(self._data[k][np.arange(n[k]) % self.Ns[k]][:, sorted(parents)])"),
    ("C19_fit_reversed_parents", "C19", SM, "X = pd.DataFrame(self._data[k][:, sorted(parents)])", "X = pd.DataFrame(self._data[k][:, sorted(parents)[::-1]])"),
    ("C19_no_graph_type_check", "C19", SM, "        if not isinstance(graph, np.ndarray):\n            raise TypeError(_GRAPH_TYPE_ERROR)\n        elif graph.ndim != 2:", "        graph = np.asarray(graph)\n        if graph.ndim != 2:"),
    ("C20_var_as_scale", "C20 C04", N, "np.random.normal(mean, var**0.5, n)", "np.random.normal(mean, var, n)"),
    ("C20_uniform_width", "C20", N, "np.random.uniform(lo, hi, n)", "np.random.uniform(lo, lo + (hi - lo) / 2, n)"),
    ("C20_laplace_scale_sqrt", "C20", N, "np.random.laplace(mean, scale, n)", "np.random.laplace(mean, scale**0.5, n)"),
    ("C20_zeros_n_plus_1", "C20", N, "return lambda n: np.zeros(n)", "return lambda n: np.zeros(n + 1)"),
    ("C20_normal_own_rng", "C20 C13", N, "    return lambda n: np.random.normal(mean, var**0.5, n)", "    rng = np.random.default_rng()\n    return lambda n: rng.normal(mean, var**0.5, n)"),
]


# Mutants that were tried and found EQUIVALENT (no observable difference), kept here for the record:
#  C08_label_only_x   label_edges labelling only x -> y instead of every edge into y: the remaining edges are labelled by
#                     later iterations with the same result (no difference on any DAG with <= 5 nodes).
#  C10_chain_rows     chain_graph_IMEC comparing rows instead of columns: on a chain the neighbours are fixed, so equal
#                     children <=> equal parents.
#  C15_paths_skip_..  excluding the current nodes of outer stack frames: they are already in `visited`.
#  C09_no_rule4 vs C10: Meek rule 4 is never needed when the background knowledge comes from interventions (all edges at a
#                     target are oriented), so it is only a C09 mutant.


def main():
    only = set(sys.argv[1:])
    tmp = tempfile.mkdtemp(prefix="vmk.")
    os.rmdir(tmp)
    subprocess.check_call(["git", "-C", "/repo", "worktree", "add", "-q", "--detach", tmp, "HEAD"])
    made = 0
    try:
        for name, props, path, old, new in M:
            if only and name not in only:
                continue
            full = os.path.join(tmp, path)
            src = open(full).read()
            if src.count(old) != 1:
                print("SKIP %s: pattern occurs %d times in %s" % (name, src.count(old), path))
                continue
            open(full, "w").write(src.replace(old, new))
            diff = subprocess.check_output(["git", "-C", tmp, "diff"]).decode()
            subprocess.check_call(["git", "-C", tmp, "checkout", "-q", "--", "."])
            d = os.path.join(VERIF, "mutants", name)
            os.makedirs(d, exist_ok=True)
            open(os.path.join(d, "patch.diff"), "w").write(diff)
            open(os.path.join(d, "props"), "w").write(props + "\n")
            made += 1
    finally:
        subprocess.call(["git", "-C", "/repo", "worktree", "remove", "--force", tmp])
    print("wrote %d mutants" % made)


if __name__ == "__main__":
    main()
