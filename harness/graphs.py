"""Oracle side for everything about graphs.  Nothing here imports the library.

A graph on p labelled nodes is a tuple ``rows`` of p Python ints: bit j of rows[i] is set
iff the adjacency matrix has a non-zero entry (i, j).  i -> j is "rows[i] has j and
rows[j] lacks i"; i - j is both bits set.  The *trusted base* is brute force:
 * acyclicity by repeatedly peeling sources,
 * v-structures straight from the definition,
 * consistent extensions / Markov equivalence classes by trying every orientation.
The faster routines (class tables, reference Meek closure) are compared with the brute
force on all small graphs by :func:`selfcheck`.
"""
import functools
import itertools

import numpy as np

from harness.core import HarnessError


# ------------------------------------------------------------------------ conversions

def rows_from_matrix(A):
    A = np.asarray(A)
    p = len(A)
    return tuple(sum(1 << j for j in range(p) if A[i, j] != 0) for i in range(p))


def matrix_from_rows(rows, dtype=int):
    p = len(rows)
    A = np.zeros((p, p), dtype=dtype)
    for i in range(p):
        for j in range(p):
            if rows[i] >> j & 1:
                A[i, j] = 1
    return A


def rows_from_lists(L):
    p = len(L)
    return tuple(sum(1 << j for j in range(p) if L[i][j] != 0) for i in range(p))


def lists_from_rows(rows):
    p = len(rows)
    return [[rows[i] >> j & 1 for j in range(p)] for i in range(p)]


def transpose(rows):
    p = len(rows)
    return tuple(sum(1 << i for i in range(p) if rows[i] >> j & 1) for j in range(p))


def bits(x):
    out = []
    j = 0
    while x:
        if x & 1:
            out.append(j)
        x >>= 1
        j += 1
    return out


# ------------------------------------------------------------------------ basic relations

def split(rows):
    """(directed rows, undirected rows): directed[i] = children of i, undirected[i] = neighbours."""
    t = transpose(rows)
    d = tuple(r & ~c for r, c in zip(rows, t))
    u = tuple(r & c for r, c in zip(rows, t))
    return d, u


def skeleton(rows):
    t = transpose(rows)
    return tuple(r | c for r, c in zip(rows, t))


def parents(rows):
    d, _ = split(rows)
    return transpose(d)


def is_acyclic_digraph(rows):
    """True iff the digraph of *all* set bits has no directed cycle (self-loops and
    two-cycles are cycles).  Peels nodes without incoming edges."""
    p = len(rows)
    alive = (1 << p) - 1
    t = transpose(rows)
    changed = True
    while alive and changed:
        changed = False
        for i in range(p):
            if alive >> i & 1 and not (t[i] & alive):
                alive &= ~(1 << i)
                changed = True
    return alive == 0


def has_cycle_dfs(rows):
    """Independent 3-colour DFS used for the acyclicity property (C03)."""
    p = len(rows)
    colour = [0] * p
    for s in range(p):
        if colour[s]:
            continue
        stack = [(s, iter(bits(rows[s])))]
        colour[s] = 1
        while stack:
            v, it = stack[-1]
            for w in it:
                if colour[w] == 1:
                    return True
                if colour[w] == 0:
                    colour[w] = 1
                    stack.append((w, iter(bits(rows[w]))))
                    break
            else:
                colour[v] = 2
                stack.pop()
    return False


def directed_part_acyclic(rows):
    return is_acyclic_digraph(split(rows)[0])


def vstructures(rows):
    """Unshielded colliders (i, c, j), i < j, over *directed* edges; shielding = any edge."""
    p = len(rows)
    pa = parents(rows)
    sk = skeleton(rows)
    out = set()
    for c in range(p):
        ps = bits(pa[c])
        for a in range(len(ps)):
            for b in range(a + 1, len(ps)):
                i, j = ps[a], ps[b]
                if not sk[i] >> j & 1:
                    out.add((i, c, j))
    return frozenset(out)


def reach(rows):
    """Transitive closure of the *directed* edges: desc[i] = nodes reachable from i by >= 1 directed edge."""
    d, _ = split(rows)
    p = len(rows)
    desc = list(d)
    for k in range(p):
        for i in range(p):
            if desc[i] >> k & 1:
                desc[i] |= desc[k]
    return tuple(desc)


# ------------------------------------------------------------------------ brute force

def orientations(rows):
    """All digraphs obtained by orienting every undirected edge of the PDAG (directed kept)."""
    p = len(rows)
    d, u = split(rows)
    und = [(i, j) for i in range(p) for j in range(i + 1, p) if u[i] >> j & 1]
    for choice in itertools.product((0, 1), repeat=len(und)):
        g = list(d)
        for (i, j), c in zip(und, choice):
            if c:
                g[i] |= 1 << j
            else:
                g[j] |= 1 << i
        yield tuple(g)


def extensions_bruteforce(rows):
    """Consistent extensions of a PDAG: acyclic orientations with the PDAG's v-structures
    (skeleton and directed edges are preserved by construction)."""
    vs = vstructures(rows)
    return frozenset(g for g in orientations(rows) if is_acyclic_digraph(g) and vstructures(g) == vs)


def mec_bruteforce(dag_rows):
    """All DAGs with the same skeleton and v-structures as the given DAG."""
    sk = skeleton(dag_rows)
    vs = vstructures(dag_rows)
    return frozenset(g for g in orientations(sk) if is_acyclic_digraph(g) and vstructures(g) == vs)


def union_graph(members):
    """Essential graph of a set of DAGs on the same skeleton: i -> j directed iff every
    member has i -> j; otherwise the edge carries both marks."""
    members = list(members)
    p = len(members[0])
    out = [0] * p
    for g in members:
        for i in range(p):
            out[i] |= g[i]
    return tuple(out)


def imec_filter(members, dag_rows, targets):
    pa = parents(dag_rows)
    return frozenset(g for g in members if all(parents(g)[t] == pa[t] for t in targets))


# ------------------------------------------------------------------------ enumeration of small graphs

def all_pair_codes(p):
    return [(i, j) for i in range(p) for j in range(i + 1, p)]


def graph_from_code(p, code, pairs=None):
    """code in base 4 over the unordered pairs: 0 absent, 1 i->j, 2 j->i, 3 i-j."""
    pairs = pairs or all_pair_codes(p)
    rows = [0] * p
    for (i, j) in pairs:
        c = code & 3
        code >>= 2
        if c & 1:
            rows[i] |= 1 << j
        if c & 2:
            rows[j] |= 1 << i
    return tuple(rows)


def code_from_graph(rows):
    p = len(rows)
    code = 0
    for k, (i, j) in enumerate(all_pair_codes(p)):
        c = (rows[i] >> j & 1) | ((rows[j] >> i & 1) << 1)
        code |= c << (2 * k)
    return code


def n_pdag_codes(p):
    return 4 ** (p * (p - 1) // 2)


def all_dags(p):
    """Every DAG on p labelled nodes (no undirected edges)."""
    pairs = all_pair_codes(p)
    out = []
    for choice in itertools.product((0, 1, 2), repeat=len(pairs)):
        rows = [0] * p
        for (i, j), c in zip(pairs, choice):
            if c == 1:
                rows[i] |= 1 << j
            elif c == 2:
                rows[j] |= 1 << i
        rows = tuple(rows)
        if is_acyclic_digraph(rows):
            out.append(rows)
    return out


@functools.lru_cache(maxsize=None)
def class_table(p):
    """skeleton -> {vstructures -> tuple of member DAGs}, for all DAGs on p nodes."""
    table = {}
    for g in all_dags(p):
        table.setdefault(skeleton(g), {}).setdefault(vstructures(g), []).append(g)
    return table


def extensions_table(rows):
    """Same set as extensions_bruteforce, through the class table (fast for p <= 5)."""
    p = len(rows)
    d, _ = split(rows)
    members = class_table(p).get(skeleton(rows), {}).get(vstructures(rows), ())
    return frozenset(g for g in members if all((g[i] & d[i]) == d[i] for i in range(p)))


def mec_table(dag_rows):
    return frozenset(class_table(len(dag_rows))[skeleton(dag_rows)][vstructures(dag_rows)])


# ------------------------------------------------------------------------ reference algorithms (validated)

def _meek_closure(rows):
    """Close a PDAG under Meek's rules 1-4 (reference implementation on bitsets).

    For an undirected edge a - b (oriented a -> b when a rule fires):
      R1  some c -> a with c not adjacent to b
      R2  some c with a -> c -> b
      R3  two non-adjacent c, d with a - c -> b and a - d -> b
      R4  some d, c with a - d -> c -> b, a adjacent to c, d not adjacent to b
    """
    p = len(rows)
    g = list(rows)
    changed = True
    while changed:
        changed = False
        t = [0] * p                                  # t[j] = nodes with a mark towards j
        for i in range(p):
            r = g[i]
            j = 0
            while r:
                if r & 1:
                    t[j] |= 1 << i
                r >>= 1
                j += 1
        ch = [g[i] & ~t[i] for i in range(p)]        # children
        pa = [t[i] & ~g[i] for i in range(p)]        # parents
        un = [g[i] & t[i] for i in range(p)]         # undirected neighbours
        ad = [g[i] | t[i] for i in range(p)]         # adjacent
        for a in range(p):
            for b in bits(un[a]):
                orient = False
                if pa[a] & ~ad[b] & ~(1 << b):
                    orient = True                                            # R1
                elif ch[a] & pa[b]:
                    orient = True                                            # R2
                else:
                    S = un[a] & pa[b]
                    for c in bits(S):
                        if S & ~ad[c] & ~(1 << c):
                            orient = True                                    # R3
                            break
                    if not orient:
                        for c in bits(pa[b] & ad[a]):
                            if pa[c] & un[a] & ~ad[b] & ~(1 << b):
                                orient = True                                # R4
                                break
                if orient:
                    g[b] &= ~(1 << a)
                    changed = True
                    break
            if changed:
                break
    return tuple(g)


def cpdag_reference(dag_rows):
    """Pattern (skeleton + v-structures) closed under Meek rules 1-3(4)."""
    p = len(dag_rows)
    sk = list(skeleton(dag_rows))
    for (i, c, j) in vstructures(dag_rows):
        sk[c] &= ~(1 << i)
        sk[c] &= ~(1 << j)
    return _meek_closure(tuple(sk))


def icpdag_reference(dag_rows, targets):
    g = list(cpdag_reference(dag_rows))
    p = len(g)
    for t in targets:
        for j in range(p):
            if dag_rows[t] >> j & 1:      # t -> j in the DAG
                g[j] &= ~(1 << t)
            if dag_rows[j] >> t & 1:      # j -> t
                g[t] &= ~(1 << j)
    return _meek_closure(tuple(g))


def members_of_essential(ess_rows):
    """Members of the class represented by a (I-)essential graph: acyclic orientations of
    its undirected part creating no new v-structure (brute force over orientations)."""
    return extensions_bruteforce(ess_rows)


# ------------------------------------------------------------------------ self check

_SELFCHECK_DONE = False


def selfcheck():
    """Compare the fast routines with the brute force on every DAG / PDAG with <= 4 nodes
    (and the reference CPDAG with the union graph).  Disagreement = broken machinery."""
    global _SELFCHECK_DONE
    if _SELFCHECK_DONE:
        return
    for p in (1, 2, 3, 4):
        for g in all_dags(p):
            if has_cycle_dfs(g):
                raise HarnessError("DFS and peeling disagree on %r" % (g,))
            m1 = mec_bruteforce(g)
            if m1 != mec_table(g):
                raise HarnessError("class table wrong for %r" % (g,))
            ug = union_graph(m1)
            if cpdag_reference(g) != ug:
                raise HarnessError("reference CPDAG wrong for %r" % (g,))
            for mask in range(1 << p):
                T = bits(mask)
                if icpdag_reference(g, T) != union_graph(imec_filter(m1, g, T)):
                    raise HarnessError("reference I-CPDAG wrong for %r %r" % (g, T))
    for p in (2, 3):
        for code in range(n_pdag_codes(p)):
            g = graph_from_code(p, code)
            if code_from_graph(g) != code:
                raise HarnessError("code round trip")
            if is_acyclic_digraph(g) == has_cycle_dfs(g):
                raise HarnessError("acyclicity oracles disagree on %r" % (g,))
            if directed_part_acyclic(g) and extensions_bruteforce(g) != extensions_table(g):
                raise HarnessError("extension table wrong for %r" % (g,))
    _SELFCHECK_DONE = True
