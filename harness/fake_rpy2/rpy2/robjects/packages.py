"""Deterministic stand-in for the R packages 'base' and 'drf'."""
import numpy as np


class PackageNotInstalledError(Exception):
    pass


# Every request of the Python side is appended here; the checker clears and reads it.
LOG = []
# Weights of the (at most) three nearest training rows; deliberately non-uniform.
KNN_WEIGHTS = (0.5, 0.3, 0.2)


def reset_log():
    del LOG[:]


def _to_array(frame):
    arr = np.asarray(frame, dtype=float)
    if arr.ndim == 1:
        arr = arr.reshape(-1, 1)
    return arr


class _Fit:
    _next_id = 0

    def __init__(self, X, Y, params):
        self.id = _Fit._next_id
        _Fit._next_id += 1
        self.X = _to_array(X).copy()
        self.Y = _to_array(Y).copy()
        self.params = dict(params)
        self.variable_importance = None


def knn_weights(X_train, query):
    """Weights of a query row: KNN_WEIGHTS on the three nearest training rows under the
    column-asymmetric L1 distance sum_c (c+1)*|x_c - q_c| (ties: lower index first)."""
    n, d = X_train.shape
    scale = np.arange(1, d + 1, dtype=float)
    dist = (np.abs(X_train - query.reshape(1, d)) * scale).sum(axis=1)
    order = np.lexsort((np.arange(n), dist))
    k = min(len(KNN_WEIGHTS), n)
    w = np.zeros(n)
    kw = np.array(KNN_WEIGHTS[:k], dtype=float)
    w[order[:k]] = kw / kw.sum()
    return w


class _Drf:
    def drf(self, X, Y, **params):
        fit = _Fit(X, Y, params)
        LOG.append(("fit", fit.id, fit.X.copy(), fit.Y.copy(), dict(params)))
        return fit

    def predict_drf(self, fit, newdata):
        Q = _to_array(newdata)
        LOG.append(("predict", fit.id, Q.copy()))
        W = np.zeros((len(Q), len(fit.X)))
        for r in range(len(Q)):
            W[r] = knn_weights(fit.X, Q[r])
        return [W, fit.Y.copy()]

    def print_drf(self, fit):
        return None

    def variableImportance(self, fit):
        return np.ones(fit.X.shape[1])


class _Base:
    @staticmethod
    def as_matrix(x):
        return np.asarray(x)


def importr(name, *args, **kwargs):
    if name == "base":
        return _Base()
    if name == "drf":
        return _Drf()
    raise PackageNotInstalledError(name)
