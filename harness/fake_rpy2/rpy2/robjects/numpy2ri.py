def activate():
    return None


def deactivate():
    return None
