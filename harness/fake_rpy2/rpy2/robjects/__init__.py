from . import packages          # noqa: F401  (rpy2.robjects.packages must be an attribute)
from . import numpy2ri          # noqa: F401
from . import pandas2ri         # noqa: F401


class _Conversion:
    @staticmethod
    def py2rpy(obj):
        return obj

    @staticmethod
    def rpy2py(obj):
        return obj


conversion = _Conversion()


def r(code):
    return None
