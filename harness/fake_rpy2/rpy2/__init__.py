"""Stand-in for the `rpy2` package (C19).

sempler.semi and the bundled drf/code.py talk to R only through a handful of
rpy2 entry points.  This package implements exactly those, backed by a
*deterministic* nearest-neighbour "forest" (see robjects/packages.py) that logs
every fit and predict request so that the checker can see what the Python side
asked for.  It lives in /verif and is put on sys.path by the checker; the
repository is not modified.
"""
__version__ = "0.0-verif-fake"
