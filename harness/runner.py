"""Runner: ./check <PROP> --tier quick|thorough [--replay FILE]

Exit status: 0 = the property held on everything explored (KNOWN-FINDING lines possible),
1 = at least one violation that KNOWN_FINDINGS.txt does not list (one
"VIOLATION property=<id> replay=<path>" line each), 2 = the machinery itself failed.
A run is a pure function of the working tree of the repository and of VERIF_SEED.
"""
import argparse
import contextlib
import glob
import importlib
import io
import json
import multiprocessing
import os
import sys
import time
import traceback

VERIF = os.path.dirname(os.path.dirname(os.path.abspath(__file__)))
REPO = os.path.abspath(os.environ.get("VERIF_REPO", "/repo"))
FAKE_RPY2 = os.path.join(VERIF, "harness", "fake_rpy2")


def setup_paths():
    """Code under test comes from the repository's *current working tree*; nothing cached."""
    for p in (FAKE_RPY2, REPO):
        if p in sys.path:
            sys.path.remove(p)
    sys.path.insert(0, FAKE_RPY2)
    sys.path.insert(0, REPO)
    if VERIF not in sys.path:
        sys.path.insert(1, VERIF)
    sys.dont_write_bytecode = True


def import_library():
    from harness.core import HarnessError
    buf = io.StringIO()
    with contextlib.redirect_stdout(buf):
        import sempler            # noqa: F401
        import sempler.utils      # noqa: F401
        import sempler.generators  # noqa: F401
        import sempler.noise      # noqa: F401
        import sempler.functions  # noqa: F401
    where = os.path.abspath(sempler.__file__)
    if not where.startswith(REPO + os.sep):
        raise HarnessError("sempler imported from %s, not from %s" % (where, REPO))
    return sempler


def load_known_findings():
    """finding: property=<id> sig=<signature> <text>    (suppresses exactly that signature)
       fixed:   property=<id> <commit> <text>           (suppresses nothing)"""
    path = os.path.join(VERIF, "KNOWN_FINDINGS.txt")
    findings = {}
    if os.path.exists(path):
        for line in open(path):
            line = line.strip()
            if not line.startswith("finding:"):
                continue
            fields = dict(tok.split("=", 1) for tok in line.split()[1:3] if "=" in tok)
            text = " ".join(line.split()[3:])
            findings.setdefault(fields.get("property"), {})[fields.get("sig")] = text
    return findings


def _run_job(args):
    modname, job = args
    mod = importlib.import_module(modname)
    t0 = time.time()
    from harness import core
    before = dict(core.STYLE_COUNTS)
    fbefore = core.FAULT_COUNTS["failing_call_first"]
    res = mod.run(job)
    d = res.to_dict() if hasattr(res, "to_dict") else res
    for k, v in core.STYLE_COUNTS.items():          # how many library calls were re-written by keyword / by position
        if v - before.get(k, 0):
            d["classes"]["calls_rewritten_" + k] = d["classes"].get("calls_rewritten_" + k, 0) + v - before.get(k, 0)
    if core.FAULT_COUNTS["failing_call_first"] - fbefore:
        d["classes"]["failing_call_made_first"] = core.FAULT_COUNTS["failing_call_first"] - fbefore
    d["wall_s"] = time.time() - t0
    d["job"] = {k: v for k, v in job.items() if isinstance(v, (int, float, str, bool, type(None)))}
    return d


def replay_file(mod, path):
    from harness.core import Violation
    rec = json.load(open(path))
    case = rec["case"] if "case" in rec else rec
    try:
        mod.check(case)
    except Violation as v:
        return v
    return None


def main(argv=None):
    ap = argparse.ArgumentParser()
    ap.add_argument("prop")
    ap.add_argument("--tier", default=os.environ.get("VERIF_TIER", "quick"), choices=["quick", "thorough"])
    ap.add_argument("--replay")
    ap.add_argument("--workers", type=int, default=int(os.environ.get("VERIF_WORKERS", "16")))
    ap.add_argument("--sub", help="only run the named sub-check(s), comma separated (debugging)")
    ap.add_argument("--scale", type=float, default=float(os.environ.get("VERIF_SCALE", "1")),
                    help="scale generated case counts (debugging)")
    ap.add_argument("--no-evidence", action="store_true")
    args = ap.parse_args(argv)

    prop = args.prop.upper()
    seed = int(os.environ.get("VERIF_SEED", "1"))
    os.environ["VERIF_SCALE"] = str(args.scale)
    t0 = time.time()
    try:
        setup_paths()
        import_library()
        from harness.core import Violation
        mod = importlib.import_module("props.%s" % prop.lower())
        if hasattr(mod, "selfcheck"):
            mod.selfcheck()
    except Exception:
        traceback.print_exc()
        print("HARNESS-ERROR property=%s (setup)" % prop)
        return 2

    # ------------------------------------------------------------------ single replay
    if args.replay:
        try:
            v = replay_file(mod, args.replay)
        except Exception:
            traceback.print_exc()
            print("HARNESS-ERROR property=%s (replay)" % prop)
            return 2
        if v is not None:
            print("violation kind=%s %s" % (v.kind, v.detail))
            print("VIOLATION property=%s replay=%s" % (prop, args.replay))
            return 1
        print("replay passed: %s" % args.replay)
        return 0

    known = load_known_findings().get(prop, {})
    results = []
    timed_out = 0
    try:
        # -------------------------------------------------------------- regression tier
        from harness.core import Acc
        racc = Acc("replay")
        for path in sorted(glob.glob(os.path.join(VERIF, "replays", "%s-*.json" % prop))):
            rec = json.load(open(path))
            case = rec["case"]
            try:
                mod.check(case)
                racc.record(case, ["replayed"], nontrivial=False)
            except Violation as v:
                racc.record(case, ["replayed"], nontrivial=False)
                racc.violation(case, v)
        rd = racc.to_dict()
        rd["wall_s"] = 0.0
        rd["job"] = {"sub": "replay"}
        results.append(rd)

        # -------------------------------------------------------------- generated tier
        plan = mod.plan(args.tier, seed)
        if args.sub:
            wanted = set(args.sub.split(","))
            plan = [j for j in plan if j["sub"] in wanted]
        plan.sort(key=lambda j: -j.get("cost", 1))
        if args.workers <= 1 or len(plan) <= 1:
            for job in plan:
                results.append(_run_job((mod.__name__, job)))
        else:
            # Watchdog: a run that exceeds its wall-clock budget (a library change that makes some call loop or blow up
            # exponentially) is cut off.  Violations found until then are still reported; otherwise the run is inconclusive
            # (exit 2) - a time budget is never a verdict about the property.
            budget = float(os.environ.get("VERIF_MAX_WALL", "1500" if args.tier == "quick" else "21600"))
            ctx = multiprocessing.get_context("fork")
            pool = ctx.Pool(min(args.workers, len(plan)))
            try:
                it = pool.imap_unordered(_run_job, [(mod.__name__, j) for j in plan], chunksize=1)
                pending = len(plan)
                while pending:
                    left = budget - (time.time() - t0)
                    if left <= 0:
                        raise multiprocessing.TimeoutError()
                    d = it.next(timeout=left)
                    results.append(d)
                    pending -= 1
                pool.close()
            except multiprocessing.TimeoutError:
                timed_out = pending
                pool.terminate()
            finally:
                pool.join()
    except Exception:
        traceback.print_exc()
        print("HARNESS-ERROR property=%s (run)" % prop)
        return 2

    # ------------------------------------------------------------------ merge
    evaluations = sum(r["evaluations"] for r in results)
    nt = set()
    nt_exh = 0
    classes = {}
    subs = {}
    samples = []
    violations = []
    discarded = excluded = 0
    for r in sorted(results, key=lambda r: (r["sub"], json.dumps(r["job"], sort_keys=True))):
        nt |= set(r["nt_hashes"])
        nt_exh += r["nt_exhaustive"]
        discarded += r["discarded"]
        excluded += r["excluded_known"]
        s = subs.setdefault(r["sub"], {"evaluations": 0, "jobs": 0, "wall_s": 0.0, "exhaustive": None,
                                       "classes": {}, "extra": {}, "_nt": set(), "nt_exhaustive": 0})
        s["evaluations"] += r["evaluations"]
        s["jobs"] += 1
        s["wall_s"] = round(s["wall_s"] + r["wall_s"], 2)
        s["_nt"] |= set(r["nt_hashes"])
        s["nt_exhaustive"] += r["nt_exhaustive"]
        if r["exhaustive"] is not None:
            s["exhaustive"] = bool(r["exhaustive"]) if s["exhaustive"] is None else (s["exhaustive"] and bool(r["exhaustive"]))
        for k, v in r["classes"].items():
            s["classes"][k] = s["classes"].get(k, 0) + v
            classes[k] = classes.get(k, 0) + v
        for k, v in r["extra"].items():
            if isinstance(v, (int, float)) and not isinstance(v, bool):
                if k.startswith("max_"):
                    s["extra"][k] = max(s["extra"].get(k, v), v)
                elif k.startswith("min_"):
                    s["extra"][k] = min(s["extra"].get(k, v), v)
                else:
                    s["extra"][k] = s["extra"].get(k, 0) + v
            else:
                s["extra"].setdefault(k, v)
        if len([x for x in samples if x.get("sub") == r["sub"]]) < 2:
            samples.extend(r["samples"][:2])
        violations.extend(r["violations"])
    for s in subs.values():
        s["distinct_nontrivial"] = len(s.pop("_nt")) + s.pop("nt_exhaustive")
    distinct_nontrivial = len(nt) + nt_exh

    # ------------------------------------------------------------------ verdict
    fail_dir = os.path.join(VERIF, "failures")
    new_violations = []
    known_hit = {}
    by_kind = {}
    for v in violations:
        by_kind.setdefault((v["case"].get("sub"), v["kind"]), []).append(v)
    for (sub, kind), vs in sorted(by_kind.items(), key=lambda kv: (str(kv[0][0]), kv[0][1])):
        vs.sort(key=lambda v: (len(json.dumps(v["case"])), json.dumps(v["case"], sort_keys=True)))
        v = vs[0]
        sig = mod.signature(v["case"], v["kind"]) if hasattr(mod, "signature") else None
        if sig is not None and sig in known:
            known_hit[sig] = known_hit.get(sig, 0) + len(vs)
            continue
        os.makedirs(fail_dir, exist_ok=True)
        from harness.core import case_hash
        path = os.path.join(fail_dir, "%s-%s-%016x.json" % (prop, str(sub), case_hash([v["case"], kind])))
        with open(path, "w") as f:
            json.dump({"property": prop, "kind": kind, "detail": v["detail"], "count": len(vs),
                       "seed": seed, "tier": args.tier, "case": v["case"]}, f, indent=1, sort_keys=True)
        new_violations.append((kind, v["detail"], path, len(vs)))
    for sig, text in known.items():
        if sig in known_hit or getattr(mod, "KNOWN_ALWAYS_REPORT", True):
            print("KNOWN-FINDING: property=%s %s" % (prop, text))

    wall = time.time() - t0
    if not args.no_evidence:
        cov = {
            "evaluations": int(evaluations),
            "distinct_nontrivial": int(distinct_nontrivial),
            "rule": mod.RULE,
            "samples": samples[:12],
            "exhaustive": bool(subs) and all(s["exhaustive"] is True for k, s in subs.items() if k != "replay"),
            "subchecks": subs,
            "classes": classes,
            "discarded": int(discarded),
            "excluded_known": int(excluded + sum(known_hit.values())),
            "workers": args.workers,
            "repo": REPO,
        }
        ev = {
            "property_id": prop, "tier": args.tier, "seed": seed, "level": "exploration",
            "coverage": cov, "assumptions": list(mod.ASSUMPTIONS), "wall_s": round(wall, 2),
            "violations": len(new_violations),
        }
        os.makedirs(os.path.join(VERIF, "evidence"), exist_ok=True)
        tmp = os.path.join(VERIF, "evidence", "%s.json.tmp" % prop)
        with open(tmp, "w") as f:
            json.dump(ev, f, indent=1, sort_keys=True)
        os.replace(tmp, os.path.join(VERIF, "evidence", "%s.json" % prop))

    print("%s tier=%s seed=%d evaluations=%d distinct_nontrivial=%d discarded=%d wall=%.1fs" %
          (prop, args.tier, seed, evaluations, distinct_nontrivial, discarded, wall))
    for name, s in sorted(subs.items()):
        print("  %-28s evals=%-8d nontrivial=%-8d exhaustive=%-5s %6.1fs" %
              (name, s["evaluations"], s["distinct_nontrivial"], s["exhaustive"], s["wall_s"]))
    if timed_out:
        print("TIME-BUDGET property=%s: %d job(s) cut off after %.0fs (VERIF_MAX_WALL); inconclusive for them" % (prop, timed_out, wall))
    if new_violations:
        for kind, detail, path, count in new_violations:
            print("violation kind=%s count=%d %s" % (kind, count, detail[:400].replace("\n", " ")))
            print("VIOLATION property=%s replay=%s" % (prop, path))
        return 1
    return 2 if timed_out else 0


if __name__ == "__main__":
    sys.exit(main())
