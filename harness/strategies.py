"""Shared Hypothesis strategies.  Everything is *constructed* (no assume/filter on the hot
path) and JSON-able: matrices are lists of lists, rationals are ints or "n/d" strings."""
from fractions import Fraction

from hypothesis import strategies as st

from harness.core import fstr

# ------------------------------------------------------------------------ patterns


@st.composite
def dag_pattern(draw, p_min=1, p_max=8, shapes=("random", "sparse", "dense", "chain", "collider", "complete", "empty")):
    """0/1 adjacency (list of lists) of a DAG: a drawn permutation of a strictly
    upper-triangular mask whose density is drawn per case."""
    p = draw(st.integers(p_min, p_max))
    shape = draw(st.sampled_from(shapes))
    order = draw(st.permutations(list(range(p))))
    A = [[0] * p for _ in range(p)]
    pairs = [(a, b) for a in range(p) for b in range(a + 1, p)]
    if shape == "empty" or p == 1:
        chosen = []
    elif shape == "complete":
        chosen = pairs
    elif shape == "chain":
        chosen = [(a, a + 1) for a in range(p - 1)]
    elif shape == "collider":
        # every node after the first k is a common child of some earlier nodes
        k = draw(st.integers(1, max(1, p - 1)))
        chosen = []
        for b in range(k, p):
            pas = draw(st.lists(st.integers(0, b - 1), min_size=min(2, b), max_size=min(3, b), unique=True))
            chosen += [(a, b) for a in pas]
    else:
        num = {"random": draw(st.integers(0, 8)), "sparse": 1, "dense": 6}[shape]
        bits = draw(st.lists(st.integers(0, 7), min_size=len(pairs), max_size=len(pairs)))
        chosen = [pr for pr, b in zip(pairs, bits) if b < num]
    for (a, b) in chosen:
        A[order[a]][order[b]] = 1
    return A


def dyadic(max_k=64, den=8, nonzero=True):
    s = st.integers(-max_k, max_k)
    if nonzero:
        s = st.integers(1, max_k).flatmap(lambda k: st.sampled_from([k, -k]))
    return s.map(lambda k: Fraction(k, den))


WEIGHT_CLASSES = ("unit", "smallint", "dyadic", "mixed", "cancelling", "positive", "tiny")
# non-zero weights far below any "tolerance": an edge is an edge whatever its magnitude
TINY = [Fraction(1, 2 ** 45), -Fraction(1, 2 ** 50), Fraction(3, 2 ** 70), -Fraction(1, 2 ** 200), Fraction(1, 2 ** 1000),
        -Fraction(1, 2 ** 1074), Fraction(1, 2 ** 34), -Fraction(1, 2 ** 28)]


@st.composite
def weighted_dag(draw, p_min=1, p_max=8, classes=WEIGHT_CLASSES, shapes=None):
    """(W as list of lists of rationals (JSON form), weight class).  'cancelling': every
    node with >= 2 parents gets a last weight equal to minus the sum of the others, so
    that its column sums to zero (constructed, not hoped for)."""
    kw = {} if shapes is None else {"shapes": shapes}
    A = draw(dag_pattern(p_min, p_max, **kw))
    p = len(A)
    cls = draw(st.sampled_from(classes))
    W = [[Fraction(0)] * p for _ in range(p)]
    edges = [(i, j) for i in range(p) for j in range(p) if A[i][j]]
    if cls == "unit":
        ws = draw(st.lists(st.sampled_from([1, -1]), min_size=len(edges), max_size=len(edges)))
        ws = [Fraction(w) for w in ws]
    elif cls == "positive":
        ws = draw(st.lists(st.integers(1, 16), min_size=len(edges), max_size=len(edges)))
        ws = [Fraction(w, 4) for w in ws]
    elif cls == "smallint":
        ws = draw(st.lists(st.sampled_from([1, 2, 3, -1, -2, -3]), min_size=len(edges), max_size=len(edges)))
        ws = [Fraction(w) for w in ws]
    elif cls == "tiny":
        ws = draw(st.lists(st.sampled_from(TINY + TINY + [Fraction(1), Fraction(-1), Fraction(3, 2), Fraction(-2)]),
                           min_size=len(edges), max_size=len(edges)))
    elif cls == "mixed":
        es = draw(st.lists(st.tuples(st.integers(-10, 10), st.booleans()), min_size=len(edges), max_size=len(edges)))
        ws = [(Fraction(2) ** e) * (-1 if neg else 1) for e, neg in es]
    else:
        ws = draw(st.lists(dyadic(), min_size=len(edges), max_size=len(edges)))
    for (i, j), w in zip(edges, ws):
        W[i][j] = w
    if cls == "cancelling":
        for j in range(p):
            pas = [i for i in range(p) if A[i][j]]
            if len(pas) >= 2:
                last = pas[-1]
                s = sum(W[i][j] for i in pas[:-1])
                if s == 0:
                    # the others already cancel: move the first weight (keeping it non-zero)
                    delta = 1 if W[pas[0]][j] != -1 else 2
                    W[pas[0]][j] += delta
                    s = delta
                W[last][j] = -s
    return [[fstr(x) for x in row] for row in W], cls


# ------------------------------------------------------------------------ PDAGs

@st.composite
def pdag(draw, p_min=1, p_max=7, max_undirected=None, weights=(1, 1, 1, 1)):
    """0/1 matrix of a partially directed graph whose directed part is acyclic by
    construction: every unordered pair is absent / -> (along a drawn order) / undirected."""
    p = draw(st.integers(p_min, p_max))
    order = draw(st.permutations(list(range(p))))
    pairs = [(a, b) for a in range(p) for b in range(a + 1, p)]
    w_abs, w_dir, w_und = weights[0], weights[1], weights[2]
    tot = w_abs + w_dir + w_und
    ks = draw(st.lists(st.integers(0, tot - 1), min_size=len(pairs), max_size=len(pairs)))
    A = [[0] * p for _ in range(p)]
    nund = 0
    for (a, b), k in zip(pairs, ks):
        i, j = order[a], order[b]
        if k < w_abs:
            continue
        if k < w_abs + w_dir or (max_undirected is not None and nund >= max_undirected):
            A[i][j] = 1
        else:
            A[i][j] = A[j][i] = 1
            nund += 1
    return A


@st.composite
def disjoint_union(draw, part, k_min=3, k_max=4, isolated=1):
    """Several small graphs side by side (plus up to `isolated` isolated nodes), labels interleaved at random: code that
    treats connected components separately - and recombines what it found per component - only shows on such graphs."""
    parts = [draw(part) for _ in range(draw(st.integers(k_min, k_max)))]
    extra = draw(st.integers(0, isolated))
    p = sum(len(x) for x in parts) + extra
    lab = list(draw(st.permutations(list(range(p)))))
    B = [[0] * p for _ in range(p)]
    off = 0
    for A in parts:
        for i in range(len(A)):
            for j in range(len(A)):
                if A[i][j] != 0:
                    B[lab[off + i]][lab[off + j]] = A[i][j]
        off += len(A)
    return B


@st.composite
def chordal_undirected(draw, max_edges=14):
    """An undirected chordal graph built as a chain of cliques (sizes 2..4), consecutive cliques sharing a node or joined
    through a bridge node adjacent to one node of each; labels scrambled.  Every such graph has a consistent extension
    (a perfect elimination ordering), but its simplicial nodes need not be the nodes of smallest degree."""
    cliques = []
    edges = set()
    n = 0
    prev_anchor = None
    for _ in range(draw(st.integers(2, 3))):
        size = draw(st.integers(2, 4))
        how = draw(st.sampled_from(["share", "bridge", "bridge"])) if prev_anchor is not None else "new"
        if how == "share":
            nodes = [prev_anchor] + list(range(n, n + size - 1))
            n += size - 1
        else:
            nodes = list(range(n, n + size))
            n += size
            if how == "bridge":
                b = n
                n += 1
                edges.add((min(prev_anchor, b), max(prev_anchor, b)))
                edges.add((min(nodes[0], b), max(nodes[0], b)))
        for i in nodes:
            for j in nodes:
                if i < j:
                    edges.add((i, j))
        prev_anchor = nodes[-1]
    edges = sorted(edges)[:max_edges] if len(edges) > max_edges else sorted(edges)
    lab = list(draw(st.permutations(list(range(n)))))
    B = [[0] * n for _ in range(n)]
    for (i, j) in edges:
        B[lab[i]][lab[j]] = B[lab[j]][lab[i]] = 1
    return B


def index_presentation(idx):
    """How an index list is handed to the library: the case stores (kind, list)."""
    kinds = ["list", "tuple", "array"]
    if len(idx) == 1:
        kinds.append("int")
    if len(idx) >= 1 and list(idx) == list(range(idx[0], idx[0] + len(idx))):
        kinds.append("range")
    return st.sampled_from(kinds)


@st.composite
def embedded(draw, A, p_big_min=9, p_big_max=12):
    """Relabel the nodes of the (small) graph A injectively into 0..p_big-1 (the other
    nodes stay isolated).  Label-dependent code - e.g. anything iterating a Python set of
    node indices, whose iteration order stops being sorted from label 8 on - only shows
    on such graphs, while brute-force oracles stay cheap because the edge count is small."""
    p = len(A)
    p_big = draw(st.integers(max(p, p_big_min), max(p, p_big_max)))
    lab = draw(st.permutations(list(range(p_big))))[:p]
    B = [[0] * p_big for _ in range(p_big)]
    for i in range(p):
        for j in range(p):
            if A[i][j] != 0:
                B[lab[i]][lab[j]] = A[i][j]
    return B


def topo_order(A):
    """A topological order of the digraph of non-zero entries (Kahn; input assumed acyclic)."""
    p = len(A)
    indeg = [sum(1 for i in range(p) if A[i][j] != 0) for j in range(p)]
    ready = [j for j in range(p) if indeg[j] == 0]
    out = []
    while ready:
        i = ready.pop()
        out.append(i)
        for j in range(p):
            if A[i][j] != 0:
                indeg[j] -= 1
                if indeg[j] == 0:
                    ready.append(j)
    return out


@st.composite
def faithless_dag(draw, p_min=3, p_max=8):
    """Weighted DAG (rationals, JSON form) in which, wherever a direct edge i -> k coexists
    with other directed paths from i to k, the direct weight is minus the summed products
    of the other paths: total effects cancel exactly (sums of path products vanish)."""
    A = draw(dag_pattern(p_min, p_max, shapes=("dense", "complete", "random", "collider")))
    p = len(A)
    order = topo_order(A)
    pos = {v: k for k, v in enumerate(order)}
    n_edges = sum(sum(r) for r in A)
    ws = draw(st.lists(st.sampled_from([1, -1, 2, -2, Fraction(1, 2), Fraction(-1, 2)]), min_size=n_edges, max_size=n_edges))
    W = [[Fraction(0)] * p for _ in range(p)]
    k = 0
    for i in range(p):
        for j in range(p):
            if A[i][j]:
                W[i][j] = Fraction(ws[k])
                k += 1
    T = [[Fraction(int(i == j)) for j in range(p)] for i in range(p)]      # total effects
    for kk in order:
        pas = sorted([i for i in range(p) if A[i][kk]], key=lambda v: -pos[v])
        for i in pas:                                   # latest parent first
            indirect = sum(T[i][j] * W[j][kk] for j in pas if j != i)
            if indirect != 0:
                W[i][kk] = -indirect
        for a in range(p):
            if a != kk:
                T[a][kk] = sum(T[a][j] * W[j][kk] for j in pas)
    return [[fstr(x) for x in row] for row in W]


WIDE_SIZES = [13, 16, 17, 24, 31, 32, 33, 48, 63, 64, 65, 66, 70]


@st.composite
def embedded_wide(draw, A):
    """Like `embedded`, but into one of the sizes around powers of two up to 70 (word-size and threshold effects)."""
    p = len(A)
    p_big = draw(st.sampled_from([s for s in WIDE_SIZES if s >= p]))
    lab = draw(st.permutations(list(range(p_big))))[:p]
    B = [[0] * p_big for _ in range(p_big)]
    for i in range(p):
        for j in range(p):
            if A[i][j] != 0:
                B[lab[i]][lab[j]] = A[i][j]
    return B
