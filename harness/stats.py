"""Acceptance regions with a bounded false-alarm probability for the sampling properties.

Every bound below is chosen so that a *correct* implementation - whatever random stream it
uses - fails with probability < 1e-12 per statistic:
  * |z| <= Z_MAX = 8 for (asymptotically) normal statistics     (two-sided tail 1.2e-15)
  * sqrt(n) * D_n <= KS_MAX = 3.8 for Kolmogorov-Smirnov         (tail 2*exp(-2*3.8^2) = 5.8e-13)
  * exact binomial tails <= 1e-12 (computed with lgamma)
Nothing here uses scipy (not installed in /venv)."""
import math

import numpy as np

Z_MAX = 8.0
KS_MAX = 3.8
BINOM_TAIL = 1e-12


def norm_cdf(x, mu=0.0, sigma=1.0):
    x = np.asarray(x, dtype=float)
    return 0.5 * (1.0 + np.vectorize(math.erf)((x - mu) / (sigma * math.sqrt(2.0))))


def uniform_cdf(x, lo, hi):
    return np.clip((np.asarray(x, dtype=float) - lo) / (hi - lo), 0.0, 1.0)


def laplace_cdf(x, mu, b):
    x = np.asarray(x, dtype=float)
    z = (x - mu) / b
    return np.where(z < 0, 0.5 * np.exp(np.minimum(z, 0)), 1.0 - 0.5 * np.exp(-np.maximum(z, 0)))


def ks_scaled(sample, cdf):
    """sqrt(n) * sup |F_n - F| for a continuous F."""
    x = np.sort(np.asarray(sample, dtype=float))
    n = len(x)
    if n == 0:
        return 0.0
    F = cdf(x)
    i = np.arange(1, n + 1)
    d = max(np.max(i / n - F), np.max(F - (i - 1) / n))
    return math.sqrt(n) * float(d)


def z_mean(sample, mu, sigma):
    n = len(sample)
    return (float(np.mean(sample)) - mu) / (sigma / math.sqrt(n))


def z_var(sample, var, mu4):
    """z-score of the sample variance; mu4 = fourth central moment of the law."""
    n = len(sample)
    s2 = float(np.var(sample, ddof=1))
    return (s2 - var) / math.sqrt(max((mu4 - var * var) / n, 1e-300))


def z_autocorr(sample):
    x = np.asarray(sample, dtype=float)
    n = len(x)
    x = x - x.mean()
    den = float((x * x).sum())
    if den == 0:
        return 0.0
    r1 = float((x[:-1] * x[1:]).sum()) / den
    return r1 * math.sqrt(n)


def z_cov(S_ij, sigma_ij, sigma_ii, sigma_jj, n):
    """z-score of a sample covariance entry of a Gaussian sample (Wishart second moments)."""
    var = (sigma_ii * sigma_jj + sigma_ij * sigma_ij) / (n - 1)
    return (S_ij - sigma_ij) / math.sqrt(max(var, 1e-300))


def _log_binom_pmf(k, n, p):
    if p <= 0:
        return 0.0 if k == 0 else -math.inf
    if p >= 1:
        return 0.0 if k == n else -math.inf
    return (math.lgamma(n + 1) - math.lgamma(k + 1) - math.lgamma(n - k + 1)
            + k * math.log(p) + (n - k) * math.log1p(-p))


def binom_tails(k, n, p):
    """(P[X <= k], P[X >= k]) for X ~ Binomial(n, p), exact up to float summation."""
    if n == 0:
        return 1.0, 1.0
    lo = math.fsum(math.exp(_log_binom_pmf(i, n, p)) for i in range(0, k + 1))
    hi = math.fsum(math.exp(_log_binom_pmf(i, n, p)) for i in range(k, n + 1))
    return min(1.0, max(0.0, lo)), min(1.0, max(0.0, hi))


def binom_ok(k, n, p, tail=BINOM_TAIL):
    lo, hi = binom_tails(k, n, p)
    return lo >= tail and hi >= tail
