"""Hypothesis glue: seeded, database-less, deadline-less runs whose every generated case
is fed to a plain ``check(case)`` function and counted in an :class:`Acc`.

Hypothesis stops at the first failure.  To enumerate *root causes* rather than one
failure, a run is repeated with every violation kind found so far demoted to a counter
(the search then continues behind it) - up to MAX_ROUNDS distinct kinds per job.
"""
import os

import hypothesis
from hypothesis import HealthCheck, Phase, given, settings
from hypothesis.stateful import run_state_machine_as_test

from harness.core import Acc, Violation

MAX_ROUNDS = 4


def scaled(n, lo=1):
    return max(lo, int(round(n * float(os.environ.get("VERIF_SCALE", "1")))))


def job_seed(job):
    return (int(job["seed"]) * 1_000_003 + int(job.get("shard", 0)) * 7919 + int(job.get("salt", 0))) % (2 ** 63)


def make_settings(max_examples, shrink=True, stateful_step_count=None):
    phases = [Phase.generate] + ([Phase.shrink] if shrink else [])
    kw = dict(max_examples=max_examples, database=None, deadline=None, derandomize=False,
              report_multiple_bugs=False, suppress_health_check=list(HealthCheck), phases=phases,
              print_blob=False, verbosity=hypothesis.Verbosity.quiet)
    if stateful_step_count is not None:
        kw["stateful_step_count"] = stateful_step_count
    return settings(**kw)


def run_property(acc, strategy, check, nontrivial, n_examples, seed, shrink=True):
    """Drive ``check`` with cases drawn from ``strategy``.

    check(case) -> iterable of labels (or None); raises Violation.
    nontrivial(case, labels) -> bool.
    """
    suppressed = set()
    for _round in range(MAX_ROUNDS):
        state = {"last": None}
        first_round = _round == 0

        @make_settings(n_examples, shrink=shrink)
        @hypothesis.seed(seed)
        @given(strategy)
        def prop(case):
            try:
                labels = check(case)
            except Violation as v:
                if v.kind in suppressed:
                    return
                state["last"] = (case, v)
                raise
            if first_round:
                labels = list(labels or ())
                acc.record(case, labels, nontrivial(case, labels))

        if not first_round:
            # do not double count generated cases of the repeated rounds
            pass
        try:
            prop()
        except Violation:
            case, v = state["last"]      # the last failing call is Hypothesis' minimal example
            acc.violation(case, v)
            suppressed.add(v.kind)
            continue
        except BaseException as exc:     # noqa: BLE001
            # Hypothesis wraps a failure it cannot reproduce (library behaviour that depends on
            # earlier calls) in Flaky / FlakyFailure.  The violation was observed, so report it.
            if _is_flaky(exc):
                if state["last"] is not None:
                    case, v = state["last"]
                    acc.violation(case, Violation(v.kind, "[not reproducible on immediate re-execution: history dependent] " + v.detail))
                    suppressed.add(v.kind)
                    continue
                if suppressed:
                    break            # non-determinism of an already reported violation; nothing new
            raise
        break
    return acc


def run_machine(acc, machine_factory, n_examples, steps, seed, shrink=True):
    """Run a RuleBasedStateMachine class produced by machine_factory(record) where the
    machine calls record(history, labels, nontrivial) in its teardown and raises
    Violation from rules/invariants.  The machine keeps its own history (list of
    JSON-able steps) in self.history; on failure the last failing history is reported."""
    suppressed = set()
    for _round in range(MAX_ROUNDS):
        state = {"last": None}
        first_round = _round == 0

        def on_finish(history, labels, nontrivial):
            if first_round:
                acc.record({"sub": acc.sub, "history": history}, labels, nontrivial)

        def on_violation(history, v):
            if v.kind in suppressed:
                return False
            state["last"] = ({"sub": acc.sub, "history": list(history)}, v)
            return True

        Machine = machine_factory(on_finish, on_violation)
        try:
            run_state_machine_as_test(hypothesis.seed(seed)(Machine),
                                      settings=make_settings(n_examples, shrink=shrink, stateful_step_count=steps))
        except Violation:
            case, v = state["last"]
            acc.violation(case, v)
            suppressed.add(v.kind)
            continue
        except BaseException as exc:     # noqa: BLE001
            if _is_flaky(exc):
                if state["last"] is not None:
                    case, v = state["last"]
                    acc.violation(case, Violation(v.kind, "[not reproducible on immediate re-execution: history dependent] " + v.detail))
                    suppressed.add(v.kind)
                    continue
                if suppressed:
                    break            # non-determinism of an already reported violation; nothing new
            raise
        break
    return acc


def _is_flaky(exc):
    import hypothesis.errors as he
    names = [n for n in ("Flaky", "FlakyFailure", "FlakyReplay") if hasattr(he, n)]
    if isinstance(exc, tuple(getattr(he, n) for n in names)):
        return True
    if isinstance(exc, BaseExceptionGroup):
        return any(_is_flaky(e) or isinstance(e, Violation) for e in exc.exceptions)
    return False


def history_machine_factory(runner_cls, step_strategies, finish_labels, init_strategy=None):
    """Generic state machine: every rule draws one JSON step from one of `step_strategies`
    (dict name -> strategy) and hands it to runner.step(step); the runner raises Violation.
    finish_labels(runner) -> (labels, nontrivial)."""
    from hypothesis.stateful import RuleBasedStateMachine, initialize, rule

    def factory(on_finish, on_violation):
        ns = {}

        def __init__(self):
            RuleBasedStateMachine.__init__(self)
            self.runner = runner_cls()
            self.history = []

        def _do(self, step):
            self.history.append(step)
            try:
                self.runner.step(step)
            except Violation as v:
                if on_violation(self.history, v):
                    raise
                self.runner = runner_cls()          # suppressed kind: restart behind it
                self.history = []

        def teardown(self):
            lab, nt = finish_labels(self.runner)
            on_finish(list(self.history), lab, nt)

        ns.update(__init__=__init__, _do=_do, teardown=teardown)
        if init_strategy is not None:
            @initialize(step=init_strategy)
            def init_step(self, step):
                self._do(step)
            ns["init_step"] = init_step
        for name, strat in step_strategies.items():
            def make(strat):
                @rule(step=strat)
                def r(self, step):
                    self._do(step)
                return r
            ns["rule_" + name] = make(strat)
        return type("HistoryMachine", (RuleBasedStateMachine,), ns)
    return factory
