"""Core data types shared by every property check.

A *case* is a JSON-serialisable dict (it always carries the key "sub" naming the
sub-check it belongs to).  A check is a plain function ``check(case) -> labels`` that
raises :class:`Violation` when the oracle disagrees with the library.  Anything else
that escapes from a check is a bug of the harness and ends the run with exit status 2.
"""
import hashlib
import json
import math
import os
import collections
from fractions import Fraction


class Violation(Exception):
    """The library's observable behaviour contradicts the property on this case."""

    def __init__(self, kind, detail=""):
        super().__init__("%s: %s" % (kind, detail))
        self.kind = kind
        self.detail = str(detail)[:2000]


class HarnessError(Exception):
    """The machinery itself is broken (oracle self-check, import of the wrong tree...)."""


class Outcome:
    """Result of one guarded call into the library."""
    __slots__ = ("ok", "value", "exc")

    def __init__(self, ok, value=None, exc=None):
        self.ok, self.value, self.exc = ok, value, exc

    @property
    def exc_name(self):
        return type(self.exc).__name__ if self.exc is not None else None

    def __repr__(self):
        return "Outcome(ok=%r, %s)" % (self.ok, repr(self.value)[:200] if self.ok else repr(self.exc)[:300])


# Documented signatures (README / docstrings at the pinned commit): (name, default) in positional order.  A call written by a
# check is re-written, for a deterministic share of the calls, into the other ways a caller may legitimately write it - every
# argument by keyword, or every argument by position (gaps filled with the documented defaults).  The names and the order are
# the *documented* ones on purpose: a change that inserts a parameter in the middle or swaps two of them breaks callers.
_REQ = object()
DOC_SIGNATURES = {
    "LGANM": (("W", _REQ), ("means", _REQ), ("variances", _REQ), ("random_state", None)),
    "LGANM.sample": (("n", 100), ("population", False), ("do_interventions", dict), ("shift_interventions", dict),
                     ("noise_interventions", dict), ("random_state", None)),
    "ANM": (("A", _REQ), ("assignments", _REQ), ("noise_distributions", _REQ)),
    "ANM.sample": (("n", _REQ), ("do_interventions", dict), ("shift_interventions", dict), ("noise_interventions", dict),
                   ("random_state", None)),
    "NormalDistribution": (("mean", _REQ), ("covariance", _REQ), ("check_valid", "ignore")),
    "NormalDistribution.sample": (("n", _REQ), ("random_state", None)),
    "NormalDistribution.marginal": (("X", _REQ),),
    "NormalDistribution.conditional": (("Y", _REQ), ("X", _REQ), ("x", _REQ)),
    "NormalDistribution.regress": (("y", _REQ), ("Xs", _REQ)),
    "NormalDistribution.mse": (("y", _REQ), ("Xs", _REQ)),
    "DRFNet": (("graph", _REQ), ("data", _REQ), ("verbose", False)),
    "DRFNet.sample": (("n", None), ("random_state", None)),
    "normal": (("mean", 0), ("var", 1)), "uniform": (("lo", 0), ("hi", 1)), "laplace": (("mean", 0), ("scale", 1)),
    "dag_avg_deg": (("p", _REQ), ("k", _REQ), ("w_min", 1), ("w_max", 1), ("return_ordering", False), ("random_state", None),
                    ("debug", False)),
    "dag_full": (("p", _REQ), ("w_min", 1), ("w_max", 1), ("return_ordering", False), ("random_state", None)),
    "intervention_targets": (("p", _REQ), ("K", _REQ), ("size", _REQ), ("replace", True), ("random_state", None)),
    "split_data": (("data", _REQ), ("ratios", _REQ), ("random_state", 42)),
    "add_edges": (("A", _REQ), ("no_edges", _REQ), ("random_state", 42)),
    "remove_edges": (("A", _REQ), ("no_edges", _REQ), ("random_state", 42)),
    "mec": (("A", _REQ), ("check_chain", True)), "imec": (("A", _REQ), ("I", _REQ), ("check_chain", True)),
    "all_dags": (("pdag", _REQ), ("max_combinations", None)),
    "is_consistent_extension": (("G", _REQ), ("P", _REQ), ("debug", False)),
    "has_consistent_extension": (("pdag", _REQ),),
    "pdag_to_cpdag": (("pdag", _REQ),), "dag_to_cpdag": (("G", _REQ),),
    "pdag_to_dag": (("P", _REQ), ("debug", False)), "maximally_orient": (("P", _REQ), ("debug", False)),
    "pdag_to_icpdag": (("P", _REQ), ("I", _REQ)), "dag_to_icpdag": (("G", _REQ), ("I", _REQ), ("debug", False)),
    "is_dag": (("A", _REQ),), "topological_ordering": (("A", _REQ),), "transitive_closure": (("A", _REQ),),
    "ancestors": (("i", _REQ), ("A", _REQ)), "descendants": (("i", _REQ), ("A", _REQ)),
    "an": (("i", _REQ), ("A", _REQ)), "desc": (("i", _REQ), ("A", _REQ)),
    "pa": (("i", _REQ), ("A", _REQ)), "ch": (("i", _REQ), ("A", _REQ)),
    "neighbors": (("i", _REQ), ("A", _REQ)), "adj": (("i", _REQ), ("A", _REQ)),
    "na": (("y", _REQ), ("x", _REQ), ("A", _REQ)),
    "semi_directed_paths": (("fro", _REQ), ("to", _REQ), ("A", _REQ)),
    "separates": (("S", _REQ), ("A", _REQ), ("B", _REQ), ("G", _REQ)),
    "chain_component": (("i", _REQ), ("G", _REQ)),
    "induced_subgraph": (("S", _REQ), ("G", _REQ)), "is_clique": (("S", _REQ), ("A", _REQ)),
    "vstructures": (("A", _REQ),), "moral_graph": (("A", _REQ),), "degrees": (("A", _REQ),), "skeleton": (("A", _REQ),),
    "only_directed": (("P", _REQ),), "only_undirected": (("P", _REQ),), "undirected_edges": (("P", _REQ),),
    "directed_edges": (("A", _REQ),), "edge_weights": (("W", _REQ),), "is_complete": (("P", _REQ),),
}
STYLES = os.environ.get("VERIF_STYLES", "1") != "0"
STYLE_COUNTS = collections.Counter()


def _fp(x, depth=0):
    """Cheap deterministic fingerprint of an argument (decides how the call is written; never part of a verdict)."""
    import numpy as np
    if isinstance(x, (bool, np.bool_)):
        return int(x) + 1
    if isinstance(x, (int, np.integer)):
        return int(x) & 0xFFFF
    if isinstance(x, (float, np.floating)):
        return (int(abs(float(x)) * 7) & 0xFF) if math.isfinite(float(x)) else 3
    if isinstance(x, np.ndarray):
        return (x.size * 31 + int(np.count_nonzero(x)) * 7 + sum(x.shape)) & 0xFFFF
    if isinstance(x, dict):
        return 13 * len(x) + sum(_fp(k, 2) for k in x)
    if isinstance(x, (set, frozenset, list, tuple)):
        return 17 * len(x) + (sum(_fp(v, depth + 1) for v in list(x)[:8]) if depth < 2 else 0)
    return 5


def _restyle(fn, args, kwargs):
    """-> (args, kwargs, fallback) for this call, or None to leave the call as the check wrote it."""
    if not STYLES or not getattr(fn, "__module__", "").startswith("sempler"):
        return None
    sig = DOC_SIGNATURES.get(getattr(fn, "__qualname__", ""))
    if sig is None or len(args) > len(sig) or any(k not in dict(sig) for k in kwargs):
        return None
    key = (sum((n + 1) * _fp(a) for n, a in enumerate(args)) + sum(_fp(v) + len(k) for k, v in kwargs.items())) % 4
    if key == 2:                                          # everything by keyword
        kw = {name: a for (name, _), a in zip(sig, args)}
        kw.update(kwargs)
        STYLE_COUNTS["keyword"] += 1
        return (), kw
    if key == 3 and kwargs:                               # everything by position, documented defaults in the gaps
        out = list(args)
        last = max(n for n, (name, _) in enumerate(sig) if name in kwargs)
        for n in range(len(args), last + 1):
            name, default = sig[n]
            if name in kwargs:
                out.append(kwargs[name])
            elif default is _REQ:
                return None
            else:
                out.append(default() if default is dict else default)
        STYLE_COUNTS["positional"] += 1
        return tuple(out), {}
    return None


# --- exception safety: a call that fails must leave nothing behind -------------------------------------------------------
# For a deterministic share of the calls a *failing* variant of the same call is made first (its outcome is ignored): the
# same arguments with one of them made invalid in a way the library documents or numpy enforces.  A library that cleans up
# only on the success path (state restored after the loop, cache key written before validation ...) then answers the
# judged call from what the failed call left behind.
FAULTS = os.environ.get("VERIF_FAULTS", "1") != "0"
FAULT_COUNTS = collections.Counter()


class _Boom(Exception):
    pass


def _raiser(*a, **k):
    raise _Boom("callable supplied by the caller raises")


def _graph_size(bound):
    import numpy as np
    for v in bound.values():
        if isinstance(v, np.ndarray) and v.ndim == 2:
            return v.shape[0]
    return None


def _poisoned(qual, bound, key, model_p=None):
    """-> dict of arguments for a variant of the call that should fail, or None."""
    import numpy as np
    b = dict(bound)
    p = _graph_size(bound)
    pick = (key // 8) % 3
    if isinstance(b.get("random_state"), (int, np.integer)) and not isinstance(b.get("random_state"), bool):
        b["random_state"] = int(b["random_state"]) + (key // 16) % 2      # the failing call has the same seed, or its own

    def others(S, bad):
        """The nodes the judged call does NOT name, plus one outside the graph."""
        rest = set(range(p)) - {int(v) for v in S}
        return (rest or {int(v) for v in S}) | {bad}
    if qual == "LGANM.sample":
        # a valid intervention on a variable the judged call does NOT touch, the caller's own entries, then a target outside
        # the model: whatever the first entries made the library do must be undone when the last one fails
        nm = ("do_interventions", "shift_interventions", "noise_interventions", "do_interventions")[(key // 8) % 4]
        used = set()
        for n in ("do_interventions", "shift_interventions", "noise_interventions"):
            used |= set((b.get(n) or {}).keys())
        free = [t for t in range(model_p or 0) if t not in used]
        extra = [(free[(key // 32) % len(free)], (7, 2))] if free else []
        if pick == 2 and not b.get("population"):
            b["n"] = -3
        b[nm] = dict(extra + list((b.get(nm) or {}).items()) + [(10 ** 6, (0, 1)) if pick != 1 else (0, "bad")])
        return b
    if qual == "ANM.sample":
        import numpy as _np
        used = set()
        for n in ("do_interventions", "shift_interventions", "noise_interventions"):
            used |= set((b.get(n) or {}).keys())
        free = [t for t in range(model_p or 0) if t not in used]
        nm = ("noise_interventions", "do_interventions", "shift_interventions")[pick]
        d = dict(b.get(nm) or {})
        if free:
            d[free[(key // 32) % len(free)]] = lambda n: _np.full(n, 1e6)      # a valid intervention the judged call does not make
        b[nm] = d
        # ... and one of the caller's callables raises (for the last variable, or the first)
        other = "do_interventions" if nm != "do_interventions" else "shift_interventions"
        d2 = dict(b.get(other) or {})
        d2[(model_p - 1) if (model_p and (key // 64) % 2) else 0] = _raiser
        b[other] = d2
        return b
    if qual == "NormalDistribution.conditional":
        x = b.get("x")
        if isinstance(x, (list, tuple, np.ndarray)) and len(x):
            b["x"] = list(x) + [0.0]                                       # one value too many: documented ValueError
            if pick == 1:
                b["X"] = list(reversed([int(v) for v in np.atleast_1d(b["X"])]))
            return b
        return None
    if qual in ("NormalDistribution.sample", "DRFNet.sample"):
        b["n"] = -3
        return b
    if qual in ("NormalDistribution.regress", "NormalDistribution.mse"):
        b["Xs"] = [int(v) for v in np.atleast_1d(b["Xs"])] + [10 ** 6]
        return b
    if qual == "separates" and p is not None:
        b["A"] = others(b["A"], p + 3)
        if pick == 1:
            b["S"] = others(set(b["S"]) | set(b["B"]), p + 5) - {p + 5} - set(b["A"])
        return b
    if qual in ("induced_subgraph", "is_clique") and p is not None:
        b["S"] = others(b["S"], p + 4)
        return b
    if qual in ("pa", "ch", "neighbors", "adj", "ancestors", "descendants", "an", "desc", "chain_component") and p is not None:
        b["i"] = p + 3
        return b
    if qual == "semi_directed_paths" and p is not None:
        b["to"] = p + 3
        return b
    if qual in ("imec", "dag_to_icpdag", "pdag_to_icpdag") and p is not None:
        b["I"] = others(b["I"], p + 3)
        return b
    if qual in ("dag_to_cpdag", "mec") or (qual in ("imec", "dag_to_icpdag") and pick == 2):
        # the same graph with one edge turned round so that it closes a cycle (same skeleton; same v-structures if possible):
        # the documented ValueError, for an input that looks like the judged one to anything keyed on class invariants
        name = "G" if "G" in b else "A"
        G0 = np.asarray(b[name])
        if G0.ndim == 2 and 3 <= G0.shape[0] <= 12:
            from harness import graphs as GR
            rows = GR.rows_from_matrix(G0)
            vs = GR.vstructures(rows)
            best = None
            for i in range(len(rows)):
                for j in GR.bits(rows[i]):
                    r = list(rows)
                    r[i] &= ~(1 << j)
                    r[j] |= 1 << i
                    if GR.has_cycle_dfs(tuple(r)) and not any(r[a] >> c & 1 and r[c] >> a & 1 for a in range(len(r)) for c in range(a)):
                        if best is None or GR.vstructures(tuple(r)) == vs:
                            best = (i, j)
                            if GR.vstructures(tuple(r)) == vs:
                                break
            if best is not None:
                bad = G0.copy()
                i, j = best
                bad[j, i] = bad[i, j]
                bad[i, j] = 0
                b[name] = bad
                return b
        return None
    if qual == "is_consistent_extension":
        G = np.asarray(b["G"])
        if G.ndim == 2 and G.shape[0] >= 2:
            bad = G.copy()
            bad[0, 1] = bad[1, 0] = 1                                      # not a DAG: documented ValueError
            b["G"] = bad
            return b
        return None
    if qual in ("add_edges", "remove_edges"):
        b["no_edges"] = 10 ** 9
        return b
    if qual in ("dag_full", "dag_avg_deg"):
        b["p"] = float(b["p"]) + (0.5 if pick == 1 else 0.0)         # 6.0 == 6, but a float is not a size
        return b
    if qual == "intervention_targets":
        b["size"] = (1, 2, 3)                                              # documented ValueError
        return b
    if qual == "split_data":
        if pick == 0:
            b["ratios"] = [float("nan"), float("nan")]       # passes a |sum - 1| test, fails when the first fold is sized
        elif pick == 1:
            b["data"] = list(b["data"]) + [None]             # fails after the earlier environments were processed
        else:
            b["ratios"] = [0.5, 0.6]                         # the documented ValueError
        return b
    return None


def _fault_first(fn, qual, sig, args, kwargs, key):
    if not FAULTS or key % 8 != 5:
        return
    names = [n for n, _ in sig]
    bound = dict(zip(names, args))
    bound.update(kwargs)
    try:
        bad = _poisoned(qual, bound, key, getattr(getattr(fn, "__self__", None), "p", None))
    except Exception:                    # noqa: BLE001 - arguments of an unexpected form: no fault is injected
        return
    if bad is None:
        return
    FAULT_COUNTS["failing_call_first"] += 1
    try:
        fn(**bad)
    except BaseException as e:           # noqa: BLE001 - whatever the failing call does is not judged
        if isinstance(e, (KeyboardInterrupt, SystemExit)):
            raise


# --- ambient state --------------------------------------------------------------------------------------------------------
# Print options never matter; floating-point error handling and the warning filter must not matter for code that does no
# floating-point arithmetic of its own (graph utilities, target sampling).
STRICT_FP = {"is_dag", "topological_ordering", "transitive_closure", "ancestors", "descendants", "an", "desc", "pa", "ch",
             "neighbors", "adj", "na", "semi_directed_paths", "separates", "chain_component", "induced_subgraph", "is_clique",
             "vstructures", "moral_graph", "degrees", "skeleton", "only_directed", "only_undirected", "undirected_edges",
             "directed_edges", "edge_weights", "is_complete", "mec", "imec", "all_dags", "is_consistent_extension",
             "has_consistent_extension", "pdag_to_cpdag", "dag_to_cpdag", "pdag_to_dag", "maximally_orient", "pdag_to_icpdag",
             "dag_to_icpdag", "add_edges", "remove_edges", "intervention_targets", "split_data"}
AMBIENT = os.environ.get("VERIF_AMBIENT", "1") != "0"


class _Ambient:
    def __init__(self, qual, key):
        self.mode = None
        if AMBIENT and qual is not None:
            if key % 5 == 0:
                self.mode = "print"
            elif key % 5 == 1 and qual in STRICT_FP:
                self.mode = "strict"

    def __enter__(self):
        import numpy as np
        if self.mode == "print":
            self.saved = np.get_printoptions()
            np.set_printoptions(threshold=5, edgeitems=1, precision=2)
        elif self.mode == "strict":
            import warnings
            self.err = np.seterr(divide="raise", invalid="raise", over="raise")
            self.cw = warnings.catch_warnings()
            self.cw.__enter__()
            warnings.simplefilter("error", RuntimeWarning)        # numpy's floating-point warnings; other categories are left alone
        return self

    def __exit__(self, *exc):
        import numpy as np
        if self.mode == "print":
            np.set_printoptions(**self.saved)
        elif self.mode == "strict":
            self.cw.__exit__(*exc)
            np.seterr(**self.err)
        return False


# --- results the caller still holds ---------------------------------------------------------------------------------------
_HELD = collections.deque(maxlen=3)


def _arrays_in(v, depth=0):
    import numpy as np
    if isinstance(v, np.ndarray):
        return [v] if v.dtype != object and 0 < v.nbytes <= (1 << 20) else []
    if isinstance(v, (tuple, list)) and depth < 2 and len(v) <= 16:
        return [a for x in v for a in _arrays_in(x, depth + 1)]
    if depth == 0 and hasattr(v, "mean") and hasattr(v, "covariance"):
        return _arrays_in(getattr(v, "mean"), 1) + _arrays_in(getattr(v, "covariance"), 1)
    return []


def _invoke(fn, args, kwargs):
    alt = _restyle(fn, args, kwargs)
    if alt is not None:
        try:
            return Outcome(True, fn(*alt[0], **alt[1]))
        except TypeError as e:
            # a signature this tree does not have (renamed / keyword-only parameter): binding fails before anything runs;
            # the call is then made exactly as the check wrote it.  Any other TypeError is the library's behaviour.
            if not ("unexpected keyword argument" in str(e) or "positional argument" in str(e)):
                return Outcome(False, exc=e)
        except RecursionError as e:
            return Outcome(False, exc=e)
        except Exception as e:           # noqa: BLE001
            return Outcome(False, exc=e)
    try:
        return Outcome(True, fn(*args, **kwargs))
    except RecursionError as e:      # still a library behaviour
        return Outcome(False, exc=e)
    except Exception as e:           # noqa: BLE001 - deliberate: judged by the caller
        return Outcome(False, exc=e)


def lib(fn, *args, **kwargs):
    """Call library code; *any* exception is captured (it is an observable behaviour of
    the library, to be judged by the oracle), never confused with a harness bug."""
    if not getattr(fn, "__module__", "").startswith("sempler"):
        return _invoke(fn, args, kwargs)
    qual = getattr(fn, "__qualname__", "")
    sig = DOC_SIGNATURES.get(qual)
    key = 0
    if sig is not None and len(args) <= len(sig) and all(k in dict(sig) for k in kwargs):
        key = sum((n + 1) * _fp(a) for n, a in enumerate(args)) + sum(_fp(v) + len(k) for k, v in kwargs.items()) + len(qual)
        _fault_first(fn, qual, sig, args, kwargs, key)
    else:
        qual = None
    # arrays handed out by the last few calls, as the caller has them now (it may have overwritten them - they are its own)
    held = [(a, a.tobytes(), q) for (a, q) in _HELD]
    with _Ambient(qual, key):
        out = _invoke(fn, args, kwargs)
    for a, was, q in held:
        if a.tobytes() != was:
            raise Violation("earlier_result_changed", "an array returned by an earlier call (%s) changed during a later call to %s: "
                            "results handed to the caller share storage with the library or with each other"
                            % (q, getattr(fn, "__qualname__", fn)))
    if out.ok:
        for a in _arrays_in(out.value):
            _HELD.append((a, getattr(fn, "__qualname__", "?")))
    return out


def must(outcome, what):
    """The property says this call succeeds: turn a library exception into a violation."""
    if not outcome.ok:
        raise Violation("unexpected_exception:%s" % outcome.exc_name,
                        "%s raised %r" % (what, outcome.exc))
    return outcome.value


def must_raise(outcome, exc_type, what):
    """The property says this call raises exc_type."""
    if outcome.ok:
        raise Violation("missing_exception:%s" % exc_type.__name__,
                        "%s returned %s instead of raising %s" % (what, repr(outcome.value)[:300], exc_type.__name__))
    if not isinstance(outcome.exc, exc_type):
        raise Violation("wrong_exception:%s" % outcome.exc_name,
                        "%s raised %r instead of %s" % (what, outcome.exc, exc_type.__name__))


# ---------------------------------------------------------------------------------------
# canonical form / hashing of cases

def _default(o):
    import numpy as np
    if isinstance(o, Fraction):
        return str(o)
    if isinstance(o, (np.integer,)):
        return int(o)
    if isinstance(o, (np.floating,)):
        return float(o)
    if isinstance(o, np.ndarray):
        return o.tolist()
    if isinstance(o, (set, frozenset)):
        return sorted(o)
    if isinstance(o, tuple):
        return list(o)
    raise TypeError("not JSON serialisable: %r" % (o,))


def canon(case):
    return json.dumps(case, sort_keys=True, default=_default, separators=(",", ":"))


def case_hash(case):
    return int.from_bytes(hashlib.blake2b(canon(case).encode(), digest_size=8).digest(), "big")


def jsonable(case):
    """Round-trip through JSON so that what is stored is what can be replayed."""
    return json.loads(canon(case))


# ---------------------------------------------------------------------------------------
# accumulator returned by every job

class Acc:
    """Counts what a job actually did.  Merged by the runner into the evidence file."""
    MAX_SAMPLES = 3

    def __init__(self, sub):
        self.sub = sub
        self.evaluations = 0
        self.nt_hashes = set()          # hashes of distinct non-trivial generated cases
        self.nt_exhaustive = 0          # non-trivial cases of exhaustive enumerations (distinct by construction)
        self.classes = collections.Counter()
        self.samples = []
        self.violations = []            # list of dicts {kind, detail, case}
        self.discarded = 0
        self.excluded_known = 0
        self.exhaustive = None          # True / False / None (n/a)
        self.extra = {}

    def record(self, case, labels=None, nontrivial=False, by_construction=False, sample=True):
        self.evaluations += 1
        if labels:
            for k in labels:
                self.classes[k] += 1
        if nontrivial:
            if by_construction:
                self.nt_exhaustive += 1
            else:
                self.nt_hashes.add(case_hash(case))
            if sample and len(self.samples) < self.MAX_SAMPLES:
                self.samples.append(jsonable(case))

    def violation(self, case, v):
        self.violations.append({"kind": v.kind, "detail": v.detail, "case": jsonable(case)})

    def to_dict(self):
        return {
            "sub": self.sub, "evaluations": self.evaluations, "nt_hashes": self.nt_hashes,
            "nt_exhaustive": self.nt_exhaustive, "classes": dict(self.classes), "samples": self.samples,
            "violations": self.violations, "discarded": self.discarded, "excluded_known": self.excluded_known,
            "exhaustive": self.exhaustive, "extra": self.extra,
        }


# ---------------------------------------------------------------------------------------
# rationals <-> JSON

def fr(x):
    """Fraction from the JSON representation (int, "n/d" string, or exactly representable float)."""
    if isinstance(x, Fraction):
        return x
    if isinstance(x, bool):
        raise TypeError("bool is not a number here")
    if isinstance(x, int):
        return Fraction(x)
    if isinstance(x, str):
        return Fraction(x)
    if isinstance(x, float):
        return Fraction(x)            # exact value of the double
    raise TypeError(repr(x))


def fstr(x):
    """JSON form of a rational: int, "n/d" string, or - for very small / large dyadics - the exact double."""
    x = Fraction(x)
    if x.denominator == 1 and x.numerator.bit_length() <= 62:
        return int(x)
    if x.denominator.bit_length() > 62 or x.numerator.bit_length() > 62:
        f = float(x)
        if Fraction(f) != x:
            raise ValueError("not exactly representable: %r" % (x,))
        return f
    return str(x)
