"""Core data types shared by every property check.

A *case* is a JSON-serialisable dict (it always carries the key "sub" naming the
sub-check it belongs to).  A check is a plain function ``check(case) -> labels`` that
raises :class:`Violation` when the oracle disagrees with the library.  Anything else
that escapes from a check is a bug of the harness and ends the run with exit status 2.
"""
import hashlib
import json
import collections
from fractions import Fraction


class Violation(Exception):
    """The library's observable behaviour contradicts the property on this case."""

    def __init__(self, kind, detail=""):
        super().__init__("%s: %s" % (kind, detail))
        self.kind = kind
        self.detail = str(detail)[:2000]


class HarnessError(Exception):
    """The machinery itself is broken (oracle self-check, import of the wrong tree...)."""


class Outcome:
    """Result of one guarded call into the library."""
    __slots__ = ("ok", "value", "exc")

    def __init__(self, ok, value=None, exc=None):
        self.ok, self.value, self.exc = ok, value, exc

    @property
    def exc_name(self):
        return type(self.exc).__name__ if self.exc is not None else None

    def __repr__(self):
        return "Outcome(ok=%r, %s)" % (self.ok, repr(self.value)[:200] if self.ok else repr(self.exc)[:300])


def lib(fn, *args, **kwargs):
    """Call library code; *any* exception is captured (it is an observable behaviour of
    the library, to be judged by the oracle), never confused with a harness bug."""
    try:
        return Outcome(True, fn(*args, **kwargs))
    except RecursionError as e:      # still a library behaviour
        return Outcome(False, exc=e)
    except Exception as e:           # noqa: BLE001 - deliberate: judged by the caller
        return Outcome(False, exc=e)


def must(outcome, what):
    """The property says this call succeeds: turn a library exception into a violation."""
    if not outcome.ok:
        raise Violation("unexpected_exception:%s" % outcome.exc_name,
                        "%s raised %r" % (what, outcome.exc))
    return outcome.value


def must_raise(outcome, exc_type, what):
    """The property says this call raises exc_type."""
    if outcome.ok:
        raise Violation("missing_exception:%s" % exc_type.__name__,
                        "%s returned %s instead of raising %s" % (what, repr(outcome.value)[:300], exc_type.__name__))
    if not isinstance(outcome.exc, exc_type):
        raise Violation("wrong_exception:%s" % outcome.exc_name,
                        "%s raised %r instead of %s" % (what, outcome.exc, exc_type.__name__))


# ---------------------------------------------------------------------------------------
# canonical form / hashing of cases

def _default(o):
    import numpy as np
    if isinstance(o, Fraction):
        return str(o)
    if isinstance(o, (np.integer,)):
        return int(o)
    if isinstance(o, (np.floating,)):
        return float(o)
    if isinstance(o, np.ndarray):
        return o.tolist()
    if isinstance(o, (set, frozenset)):
        return sorted(o)
    if isinstance(o, tuple):
        return list(o)
    raise TypeError("not JSON serialisable: %r" % (o,))


def canon(case):
    return json.dumps(case, sort_keys=True, default=_default, separators=(",", ":"))


def case_hash(case):
    return int.from_bytes(hashlib.blake2b(canon(case).encode(), digest_size=8).digest(), "big")


def jsonable(case):
    """Round-trip through JSON so that what is stored is what can be replayed."""
    return json.loads(canon(case))


# ---------------------------------------------------------------------------------------
# accumulator returned by every job

class Acc:
    """Counts what a job actually did.  Merged by the runner into the evidence file."""
    MAX_SAMPLES = 3

    def __init__(self, sub):
        self.sub = sub
        self.evaluations = 0
        self.nt_hashes = set()          # hashes of distinct non-trivial generated cases
        self.nt_exhaustive = 0          # non-trivial cases of exhaustive enumerations (distinct by construction)
        self.classes = collections.Counter()
        self.samples = []
        self.violations = []            # list of dicts {kind, detail, case}
        self.discarded = 0
        self.excluded_known = 0
        self.exhaustive = None          # True / False / None (n/a)
        self.extra = {}

    def record(self, case, labels=None, nontrivial=False, by_construction=False, sample=True):
        self.evaluations += 1
        if labels:
            for k in labels:
                self.classes[k] += 1
        if nontrivial:
            if by_construction:
                self.nt_exhaustive += 1
            else:
                self.nt_hashes.add(case_hash(case))
            if sample and len(self.samples) < self.MAX_SAMPLES:
                self.samples.append(jsonable(case))

    def violation(self, case, v):
        self.violations.append({"kind": v.kind, "detail": v.detail, "case": jsonable(case)})

    def to_dict(self):
        return {
            "sub": self.sub, "evaluations": self.evaluations, "nt_hashes": self.nt_hashes,
            "nt_exhaustive": self.nt_exhaustive, "classes": dict(self.classes), "samples": self.samples,
            "violations": self.violations, "discarded": self.discarded, "excluded_known": self.excluded_known,
            "exhaustive": self.exhaustive, "extra": self.extra,
        }


# ---------------------------------------------------------------------------------------
# rationals <-> JSON

def fr(x):
    """Fraction from the JSON representation (int, "n/d" string, or exactly representable float)."""
    if isinstance(x, Fraction):
        return x
    if isinstance(x, bool):
        raise TypeError("bool is not a number here")
    if isinstance(x, int):
        return Fraction(x)
    if isinstance(x, str):
        return Fraction(x)
    if isinstance(x, float):
        return Fraction(x)            # exact value of the double
    raise TypeError(repr(x))


def fstr(x):
    """JSON form of a rational: int, "n/d" string, or - for very small / large dyadics - the exact double."""
    x = Fraction(x)
    if x.denominator == 1 and x.numerator.bit_length() <= 62:
        return int(x)
    if x.denominator.bit_length() > 62 or x.numerator.bit_length() > 62:
        f = float(x)
        if Fraction(f) != x:
            raise ValueError("not exactly representable: %r" % (x,))
        return f
    return str(x)
