"""Exact rational linear algebra (fractions.Fraction) for the Gaussian oracles.
Matrices are lists of lists of Fraction, vectors lists of Fraction.  Nothing here
imports the library, and nothing rounds."""
from fractions import Fraction

ZERO = Fraction(0)
ONE = Fraction(1)


def F(x):
    return x if isinstance(x, Fraction) else Fraction(x)


def mat(M):
    return [[F(x) for x in row] for row in M]


def vec(v):
    return [F(x) for x in v]


def eye(n):
    return [[ONE if i == j else ZERO for j in range(n)] for i in range(n)]


def zeros(n, m):
    return [[ZERO] * m for _ in range(n)]


def T(M):
    return [list(r) for r in zip(*M)] if M else []


def mm(A, B):
    Bt = T(B)
    return [[sum((a * b for a, b in zip(row, col) if a and b), ZERO) for col in Bt] for row in A]


def mv(A, v):
    return [sum((a * b for a, b in zip(row, v) if a and b), ZERO) for row in A]


def add(A, B):
    return [[a + b for a, b in zip(ra, rb)] for ra, rb in zip(A, B)]


def sub(A, B):
    return [[a - b for a, b in zip(ra, rb)] for ra, rb in zip(A, B)]


def vsub(a, b):
    return [x - y for x, y in zip(a, b)]


def vadd(a, b):
    return [x + y for x, y in zip(a, b)]


def diag(v):
    n = len(v)
    return [[F(v[i]) if i == j else ZERO for j in range(n)] for i in range(n)]


def block(M, rows, cols):
    return [[M[i][j] for j in cols] for i in rows]


class Singular(Exception):
    pass


def solve(A, B):
    """Solve A X = B (B matrix) by Gauss-Jordan elimination with exact pivots."""
    n = len(A)
    if n == 0:
        return []
    m = len(B[0]) if B and B[0] is not None else 0
    M = [list(A[i]) + list(B[i]) for i in range(n)]
    for c in range(n):
        piv = next((r for r in range(c, n) if M[r][c] != 0), None)
        if piv is None:
            raise Singular()
        M[c], M[piv] = M[piv], M[c]
        pv = M[c][c]
        M[c] = [x / pv for x in M[c]]
        for r in range(n):
            if r != c and M[r][c] != 0:
                f = M[r][c]
                M[r] = [x - f * y for x, y in zip(M[r], M[c])]
    return [row[n:] for row in M]


def inv(A):
    return solve(A, eye(len(A)))


def norm_inf(M):
    return max((sum(abs(x) for x in row) for row in M), default=ZERO)


def vnorm_inf(v):
    return max((abs(x) for x in v), default=ZERO)


def cond_inf(A, Ainv=None):
    Ainv = Ainv if Ainv is not None else inv(A)
    return norm_inf(A) * norm_inf(Ainv)


def to_float(M):
    return [[float(x) for x in row] for row in M]


def vto_float(v):
    return [float(x) for x in v]


def is_symmetric(M):
    n = len(M)
    return all(M[i][j] == M[j][i] for i in range(n) for j in range(i))
