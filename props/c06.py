"""C06 - population regression and MSE are the least-squares solution."""
from fractions import Fraction

import numpy as np
from hypothesis import strategies as st

from harness import exact as X
from harness import strategies as S
from harness.core import Acc, Violation, fr, fstr, lib, must
from harness.hyp import job_seed, run_property, scaled
from props import c01, c05

PROP = "C06"
EPS = 2.0 ** -52
KAPPA_MAX = 1e10
RULE = ("Hypothesis: Gaussians as in C05 (Sigma = B B^T + diag(d) positive definite, p<=7, scaled by 4^s, s in [-20,20], so that "
        "tiny and huge variances occur), targets y and regressor sets S in a drawn order given as int / list / tuple / range / "
        "ndarray, incl. empty S and S containing y. Oracle: exact normal equations in Fractions (b_S = Sigma_SS^-1 Sigma_Sy, "
        "0 off S, c = mu_y - b.mu, mse = Sigma_yy - Sigma_yS Sigma_SS^-1 Sigma_Sy) with cond(Sigma_SS)-scaled tolerance; "
        "the residual's mean and its covariance with every regressor evaluated exactly from the returned floats; metamorphic: "
        "mse unchanged by a different mean and by permuting S, mse(S u T) <= mse(S) + tol, mse >= -tol; the same query "
        "repeated on the same object after overwriting the previously returned coefficient array. LGANM link: generated LGANMs "
        "(signed weights, positive variances) under random do/noise/shift interventions with positive variances: regressing "
        "each variable on its post-intervention parents must return W'[:, i], mu'_i and sigma'^2_i. Non-trivial = |S|>=2, or "
        "y in S, or an LGANM case with an intervention on y or on one of its parents. Also: per-coordinate units with an equilibrated tolerance, int64 covariances with fractional means, descending ranges, scalar shift parameters in the LGANM link.")
ASSUMPTIONS = [
    "oracle: exact rational normal equations (/verif/harness/exact.py)",
    "tolerances are norm-wise and condition-scaled; cond(Sigma_SS) > 1e8 (or cond(I-W^T) > 1e6 in the LGANM link) is discarded",
    "duplicate indices in S (singular system) are not generated",
]


def exact_regression(mean, cov, y, Sl):
    """Exact least-squares fit plus *equilibrated* norms (every coordinate in its own power-of-two unit, see c05.unit)."""
    p = len(mean)
    b = [Fraction(0)] * p
    u = [c05.unit(cov[i][i]) for i in range(p)]
    norms = {"ks": 1.0, "sss": 0.0, "u": [float(x) for x in u]}
    if Sl:
        Sss = X.block(cov, Sl, Sl)
        Sinv = X.inv(Sss)
        rhs = [cov[s][y] for s in Sl]
        bs = X.mv(Sinv, rhs)
        for s, v in zip(Sl, bs):
            b[s] = v
        k = len(Sl)
        Sss_s = [[Sss[a][c] / (u[Sl[a]] * u[Sl[c]]) for c in range(k)] for a in range(k)]
        Sinv_s = [[Sinv[a][c] * (u[Sl[a]] * u[Sl[c]]) for c in range(k)] for a in range(k)]
        norms.update(ks=float(X.norm_inf(Sss_s) * X.norm_inf(Sinv_s)), sss=float(X.norm_inf(Sss_s)))
    c = mean[y] - sum(bi * mi for bi, mi in zip(b, mean))
    mse = cov[y][y] - sum(b[s] * cov[s][y] for s in Sl)
    return b, c, mse, norms


def _tols(mean, cov, y, Sl, b, norms):
    """(tolerance vector for the coefficients, tolerance of the intercept, tolerance of the mse): an equilibrated
    norm-wise bound 1000 * eps * n * cond, mapped back to the units u_y / u_s of each coefficient."""
    n = len(Sl) + 1
    p = len(mean)
    u = norms["u"]
    bs_max = max((abs(float(b[s])) * u[s] / u[y] for s in Sl), default=0.0)        # coefficients in scaled units
    t = 1000 * EPS * n * norms["ks"] * bs_max
    tol_coef = np.array([t * u[y] / u[s] if s in Sl else 0.0 for s in range(p)]) + 1e-300
    tol_int = float(sum(tol_coef[s] * abs(float(mean[s])) for s in Sl)) + 100 * EPS * n * float(abs(mean[y]) + sum(abs(bi * mi) for bi, mi in zip(b, mean))) + 1e-300
    quad = float(cov[y][y] + sum(abs(b[i]) * abs(cov[i][j]) * abs(b[j]) for i in Sl for j in Sl) + 2 * sum(abs(cov[y][s]) * abs(b[s]) for s in Sl))
    tol_mse = 100 * EPS * (p + 1) * quad + norms["sss"] * len(Sl) ** 2 * t ** 2 * u[y] ** 2 + 1e-300
    return tol_coef, tol_int, tol_mse


def check(case):
    if case["sub"] == "lganm":
        return _check_lganm(case)
    import sempler
    mean, cov = c05.build(case)
    p = len(mean)
    fmean = np.array(X.vto_float(mean))
    fcov = c05.float_cov(case, cov)
    y, Sl = case["y"], list(case["S"])
    ctx = "mean=%s cov=%s y=%d S=%s" % (fmean.tolist(), fcov.tolist(), y, Sl)
    b, c, mse, norms = exact_regression(mean, cov, y, Sl)
    if norms["ks"] > KAPPA_MAX:
        return ["discard_illconditioned"]
    tol_coef, tol_int, tol_mse = _tols(mean, cov, y, Sl, b, norms)
    dist = must(lib(sempler.NormalDistribution, fmean.copy(), fcov.copy()), "NormalDistribution")
    ratios = []
    lab = ["Spres_" + case.get("Spres", "list")] + (["int_cov"] if fcov.dtype != float else [])
    if len(Sl) >= 2:
        lab.append("S_ge2")
        if Sl != sorted(Sl):
            lab.append("S_unsorted")
    if y in Sl:
        lab.append("y_in_S")
    if not Sl:
        lab.append("S_empty")
    Sarg = c05._present(Sl, case.get("Spres", "list")) if Sl else ([] if case.get("Spres") != "array" else np.array([], dtype=int))

    def judge(res, msev, what):
        coefs, intercept = res
        coefs = np.asarray(coefs, dtype=float)
        if coefs.shape != (p,):
            raise Violation("bad_shape", "%s: coefficients of shape %r for p=%d; %s" % (what, coefs.shape, p, ctx))
        wb = np.array(X.vto_float(b))
        off = [i for i in range(p) if i not in Sl]
        if any(coefs[i] != 0 for i in off):
            raise Violation("coef_outside_S", "%s: non-zero coefficient outside S: %s; %s" % (what, coefs.tolist(), ctx))
        e = np.abs(coefs - wb)
        ratios.append(float((e / tol_coef).max()))
        if not (e <= tol_coef).all():
            k = int(np.argmax(e / tol_coef))
            raise Violation("coef_wrong", "%s: coefficients %s vs exact %s (entry %d: err %.3g > tol %.3g); %s"
                            % (what, coefs.tolist(), wb.tolist(), k, e[k], tol_coef[k], ctx))
        ei = abs(float(intercept) - float(c))
        if not ei <= tol_int:
            raise Violation("intercept_wrong", "%s: intercept %r vs exact %r (err %.3g > tol %.3g); %s" % (what, float(intercept), float(c), ei, tol_int, ctx))
        # the defining conditions, evaluated exactly on the returned floats
        fb = [Fraction(float(v)) for v in coefs]
        rmean = mean[y] - sum(bi * mi for bi, mi in zip(fb, mean)) - Fraction(float(intercept))
        if not abs(float(rmean)) <= 2 * tol_int:
            raise Violation("residual_mean_nonzero", "%s: residual mean %.3g (tol %.3g); %s" % (what, float(rmean), 2 * tol_int, ctx))
        for s in Sl:
            rc = cov[y][s] - sum(fb[i] * cov[i][s] for i in range(p))
            tol_rc = 2 * len(Sl) * max(abs(float(cov[i][s])) * tol_coef[i] for i in Sl) + 1e-300
            if not abs(float(rc)) <= tol_rc:
                raise Violation("residual_correlated", "%s: cov(residual, X%d) = %.3g (tol %.3g); %s" % (what, s, float(rc), tol_rc, ctx))
        em = abs(float(msev) - float(mse))
        if not em <= tol_mse:
            raise Violation("mse_wrong", "%s: mse %r vs exact %r (err %.3g > tol %.3g); %s" % (what, float(msev), float(mse), em, tol_mse, ctx))
        if float(msev) < -tol_mse:
            raise Violation("mse_negative", "%s: mse %r; %s" % (what, float(msev), ctx))
        return coefs

    r1 = must(lib(dist.regress, y, Sarg), "regress")
    m1 = must(lib(dist.mse, y, Sarg), "mse")
    coefs1 = judge(r1, m1, "regress/mse(%d, %s)" % (y, Sl))
    # the caller keeps one index buffer, overwrites an entry and asks again with the same array object
    T = [t for t in case.get("T", []) if t not in Sl]
    if T and isinstance(Sarg, np.ndarray) and len(Sarg) >= 1:
        S3 = list(Sl)
        S3[0] = T[0]
        b3, c3, mse3, norms3 = exact_regression(mean, cov, y, S3)
        if norms3["ks"] <= KAPPA_MAX:
            tc3, ti3, tm3 = _tols(mean, cov, y, S3, b3, norms3)
            Sarg[0] = T[0]
            r5 = must(lib(dist.regress, y, Sarg), "regress (index buffer edited in place)")
            m5 = must(lib(dist.mse, y, Sarg), "mse (index buffer edited in place)")
            co5 = np.asarray(r5[0], dtype=float)
            what = "regress/mse(%d, S) after the caller changed its index array in place from %s to %s" % (y, Sl, S3)
            if co5.shape != (p,) or any(co5[i] != 0 for i in range(p) if i not in S3):
                raise Violation("coef_outside_S", "%s: coefficients %s; %s" % (what, co5.tolist(), ctx))
            if not (np.abs(co5 - np.array(X.vto_float(b3))) <= tc3).all() or not abs(float(r5[1]) - float(c3)) <= ti3:
                raise Violation("coef_wrong", "%s: coefficients %s intercept %r vs exact %s, %r; %s"
                                % (what, co5.tolist(), float(r5[1]), X.vto_float(b3), float(c3), ctx))
            if not abs(float(m5) - float(mse3)) <= tm3:
                raise Violation("mse_wrong", "%s: mse %r vs exact %r; %s" % (what, float(m5), float(mse3), ctx))
            lab.append("index_buffer_reused")
    # overwrite what was returned, then ask again (same object; S permuted): results must not depend on history
    try:
        np.asarray(r1[0])[...] = 12345.0
    except (ValueError, TypeError):
        pass
    S2 = [Sl[k] for k in case["perm"]] if case.get("perm") else list(Sl)
    r2 = must(lib(dist.regress, y, list(S2)), "regress (repeat)")
    m2 = must(lib(dist.mse, y, list(S2)), "mse (repeat)")
    judge(r2, m2, "repeated regress/mse(%d, %s) on the same object" % (y, S2))
    if abs(float(m2) - float(m1)) > 2 * tol_mse:
        raise Violation("mse_order_dependent", "mse(%d,%s)=%r but mse(%d,%s)=%r; %s" % (y, Sl, m1, y, S2, m2, ctx))
    lab.append("repeat")
    r = max(ratios) if ratios else 0.0
    lab.append("coef_ratio_%s" % ("lt1e-3" if r < 1e-3 else "lt1e-2" if r < 1e-2 else "lt1e-1" if r < 1e-1 else "lt1"))
    # mse does not depend on the means
    other = must(lib(sempler.NormalDistribution, fmean + np.arange(1, p + 1) * 3.5, fcov.copy()), "NormalDistribution")
    m3 = must(lib(other.mse, y, list(Sl)), "mse (other mean)")
    if abs(float(m3) - float(m1)) > 2 * tol_mse:
        raise Violation("mse_depends_on_mean", "mse changes with the mean: %r vs %r; %s" % (m1, m3, ctx))
    # adding regressors never increases the mse
    T = [t for t in case.get("T", []) if t not in Sl]
    if T:
        ST = Sl + T
        b2, c2, mse2, norms2 = exact_regression(mean, cov, y, ST)
        if norms2["ks"] <= KAPPA_MAX:
            _, _, tol_mse2 = _tols(mean, cov, y, ST, b2, norms2)
            m4 = must(lib(dist.mse, y, list(ST)), "mse (more regressors)")
            if float(m4) > float(m1) + tol_mse + tol_mse2:
                raise Violation("mse_not_monotone", "mse(%d,%s)=%r > mse(%d,%s)=%r; %s" % (y, ST, m4, y, Sl, m1, ctx))
            if abs(float(m4) - float(mse2)) > tol_mse2:
                raise Violation("mse_wrong", "mse(%d,%s)=%r vs exact %r; %s" % (y, ST, m4, float(mse2), ctx))
            lab.append("monotone")
    return lab


def _check_lganm(case):
    import sempler
    law = c01.exact_law(case)
    p = len(case["W"])
    if law["kappa"] > 1e6:
        return ["discard_illconditioned"]
    dt = case.get("dtypes", {})
    Warr = c01._arr([x for row in case["W"] for x in row], dt.get("W", "float")).reshape(p, p)
    model = must(lib(sempler.LGANM, Warr, c01._arr(case["means"], dt.get("means", "float")),
                     c01._arr(case["variances"], dt.get("variances", "float"))), "LGANM")
    kwargs = {}
    for nm, key in (("do", "do_interventions"), ("noise", "noise_interventions"), ("shift", "shift_interventions")):
        if case.get(nm):
            kwargs[key] = c01._interventions(case[nm], "dict")
    dist = must(lib(model.sample, population=True, **kwargs), "LGANM.sample(population=True)")
    tol_mean_law = 100 * EPS * p * law["kappa"] * law["normM"] * law["normmu"] + 1e-300
    tol_cov_law = 100 * EPS * p * law["kappa"] * law["normM"] ** 2 * law["normD"] + 1e-300
    Wp, mu, D, cov, mean = law["W"], law["mu"], law["D"], law["cov"], law["mean"]
    lab = []
    ratios = []
    targets = set(int(k) for d in ("do", "noise", "shift") for k in case.get(d, {}))
    ctx = "W=%s means=%s variances=%s do=%s noise=%s shift=%s" % (case["W"], case["means"], case["variances"], case.get("do"), case.get("noise"), case.get("shift"))
    for i in range(p):
        pa = [j for j in range(p) if Wp[j][i] != 0]
        want_b = [Wp[j][i] for j in range(p)]
        b1 = float(sum(abs(v) for v in want_b))
        if pa:
            Sss = X.block(cov, pa, pa)
            Sinv = X.inv(Sss)
            ks = float(X.norm_inf(Sss) * X.norm_inf(Sinv))
            sinv = float(X.norm_inf(Sinv))
        else:
            ks, sinv = 1.0, 0.0
        if ks > KAPPA_MAX:
            lab.append("discard_parent_block")
            continue
        bmax = float(max((abs(v) for v in want_b), default=Fraction(0)))
        tol_coef = 2 * sinv * tol_cov_law * (len(pa) * bmax + 1) + 100 * EPS * (len(pa) + 1) * ks * bmax + 1e-300
        tol_int = tol_mean_law * (1 + b1) + tol_coef * float(sum(abs(m) for m in mean)) + 100 * EPS * p * float(abs(mean[i]) + sum(abs(w * m) for w, m in zip(want_b, mean))) + 1e-300
        quad = float(cov[i][i] + sum(abs(want_b[a]) * abs(cov[a][c]) * abs(want_b[c]) for a in pa for c in pa) + 2 * sum(abs(cov[i][a] * want_b[a]) for a in pa))
        tol_mse = 2 * tol_cov_law * (1 + b1) ** 2 + 100 * EPS * (p + 1) * quad + float(X.norm_inf(X.block(cov, pa, pa)) if pa else 0) * len(pa) ** 2 * tol_coef ** 2 + 1e-300
        pres = [list, tuple, np.array, lambda v: np.array(v, dtype=np.int8), lambda v: np.array(v, dtype=np.uint8),
                lambda v: np.array(v, dtype=np.int16), lambda v: np.array(v, dtype=np.uint64)][(i + p) % 7]
        coefs, intercept = must(lib(dist.regress, i, pres(pa) if pa else []), "regress(%d, parents %s)" % (i, pa))
        msev = must(lib(dist.mse, i, list(pa)), "mse(%d, parents)" % i)
        coefs = np.asarray(coefs, dtype=float)
        e = np.abs(coefs - np.array(X.vto_float(want_b))).max()
        ratios.append(max(e / tol_coef, abs(float(intercept) - float(mu[i])) / tol_int, abs(float(msev) - float(D[i])) / tol_mse))
        if not e <= tol_coef:
            raise Violation("lganm_coef_wrong", "regress(%d, pa=%s) = %s, incoming weights are %s (err %.3g > tol %.3g); %s"
                            % (i, pa, coefs.tolist(), X.vto_float(want_b), e, tol_coef, ctx))
        if not abs(float(intercept) - float(mu[i])) <= tol_int:
            raise Violation("lganm_intercept_wrong", "regress(%d, pa=%s) intercept %r, noise mean is %r (tol %.3g); %s"
                            % (i, pa, float(intercept), float(mu[i]), tol_int, ctx))
        if not abs(float(msev) - float(D[i])) <= tol_mse:
            raise Violation("lganm_mse_wrong", "mse(%d, pa=%s) = %r, noise variance is %r (tol %.3g); %s"
                            % (i, pa, float(msev), float(D[i]), tol_mse, ctx))
        if i in targets or any(a in targets for a in pa):
            lab.append("intervened_family")
        if pa and max(pa) >= 12:
            lab.append("parent_label_ge_12")
        if str(i) in case.get("do", {}):
            lab.append("do_target")
    if ratios:
        r = max(ratios)
        lab.append("link_ratio_%s" % ("lt1e-3" if r < 1e-3 else "lt1e-2" if r < 1e-2 else "lt1e-1" if r < 1e-1 else "lt1"))
    return sorted(set(lab)) + ["lganm"]


def _nontrivial(case, labels):
    return any(l in labels for l in ("S_ge2", "y_in_S", "intervened_family"))


@st.composite
def reg_case(draw):
    wide = draw(st.integers(0, 5)) == 0
    if wide:                                  # 12..40 variables, regressors among the highest labels
        p = draw(st.integers(12, 40))
        r = draw(st.integers(1, 3))
        B = [[draw(c05._q(8, 4)) for _ in range(r)] for _ in range(p)]
        mean = [draw(c05._q(40, 8)) for _ in range(p)]
    else:
        p, B, mean = draw(c05._dist(1, 7) if draw(st.integers(0, 3)) == 0 else c05._dist(4, 7))
    den = draw(st.sampled_from([4, 4, 4, 4096]))
    d = [fstr(Fraction(draw(st.integers(1, 8)), den)) for _ in range(p)]
    y = draw(st.integers(0, p - 1))
    if wide:
        ns = draw(st.integers(1, 4))
        Sl = list(draw(st.lists(st.integers(p - 7, p - 1), min_size=ns, max_size=ns, unique=True)))
    else:
        ns = draw(st.sampled_from([0] + list(range(1, p + 1)) * 2))
        Sl = list(draw(st.lists(st.integers(0, p - 1), min_size=ns, max_size=ns, unique=True)))
    if draw(st.integers(0, 3)) and y in Sl:
        Sl.remove(y)
    case = {"sub": "reg", "mean": mean, "B": B, "d": d, "y": y, "S": Sl,
            "scale_exp": draw(st.sampled_from([0, 0, 0, 1, -1, 8, -8, -15, 20, -20])),
            "Spres": c05._pres_for(draw, Sl) if Sl else draw(st.sampled_from(["list", "array"])),
            "T": list(draw(st.lists(st.integers(0, p - 1), max_size=2, unique=True)))}
    if len(Sl) >= 2:
        case["perm"] = list(draw(st.permutations(list(range(len(Sl))))))
    if draw(st.integers(0, 3)) == 0:
        case["cscale"] = [draw(st.sampled_from([0, 0, 1, -1, 9, -9, 17, -17])) for _ in range(p)]
    if draw(st.integers(0, 3)) == 0:
        # integer-typed covariance with fractional means
        case["B"] = [[draw(st.integers(-3, 3)) for _ in row] for row in B]
        case["d"] = [draw(st.integers(1, 5)) for _ in range(p)]
        case["scale_exp"] = draw(st.sampled_from([0, 0, 3, 8, 16]))
        case["cscale"] = None
        case["int_cov"] = True
    return case


@st.composite
def lganm_case(draw, p_max):
    W, cls = draw(S.weighted_dag(2, p_max, classes=("unit", "smallint", "dyadic", "cancelling", "positive")))
    if draw(st.integers(0, 3)) == 0:
        W = draw(S.embedded(W, 12, 26))          # the same family among 12..26 variables: parents carry high labels
    p = len(W)
    means = [fstr(Fraction(draw(st.integers(-24, 24)), 8)) for _ in range(p)]
    variances = [fstr(Fraction(draw(st.integers(1, 32)), 8)) for _ in range(p)]
    n_int = draw(st.sampled_from([0, 1, 2, 2, 3]))
    tg = draw(st.lists(st.integers(0, p - 1), min_size=min(n_int, p), max_size=min(n_int, p), unique=True))
    do, noise, shift = {}, {}, {}
    for t in tg:
        cls_t = draw(st.sampled_from(["do", "noise", "shift", "do+shift", "noise+shift", "do+noise"]))
        def par(pos):
            m = Fraction(draw(st.integers(-16, 16)), 4)
            v = Fraction(draw(st.integers(1 if pos else 0, 16)), 4)
            return [fstr(m), fstr(v)]
        if "do" in cls_t:
            do[str(t)] = par(True)
        if "noise" in cls_t:
            noise[str(t)] = par(True)
        if "shift" in cls_t:
            shift[str(t)] = par(False) if draw(st.booleans()) else fstr(Fraction(draw(st.integers(-16, 16)), 4))      # scalar = (m, 0)
    return {"sub": "lganm", "W": W, "means": means, "variances": variances, "dtypes": {}, "do": do, "noise": noise,
            "shift": shift, "wclass": cls}


def plan(tier, seed):
    jobs = []
    n = scaled(9600 if tier == "quick" else 120000)
    nl = scaled(4800 if tier == "quick" else 60000)
    shards = 16 if tier == "quick" else 64
    for k in range(shards):
        jobs.append({"sub": "reg", "seed": seed, "shard": k, "n": max(1, n // shards), "cost": 10})
        jobs.append({"sub": "lganm", "seed": seed, "shard": k, "salt": 9, "n": max(1, nl // shards), "p_max": 7 if tier == "quick" else 10, "cost": 6})
    return jobs


def run(job):
    acc = Acc(job["sub"])
    if job["sub"] == "reg":
        run_property(acc, reg_case(), check, _nontrivial, job["n"], job_seed(job))
    else:
        run_property(acc, lganm_case(job["p_max"]), check, _nontrivial, job["n"], job_seed(job))
    acc.discarded = acc.classes.get("discard_illconditioned", 0)
    acc.exhaustive = False
    return acc


LEVEL_TEXT = ("Exploration: generated Gaussians (incl. 4^+-20 scalings, near-singular blocks) x targets x ordered regressor sets in "
              "every presentation are compared with exact rational normal equations; the orthogonality conditions that define "
              "least squares are evaluated exactly on the returned floats; metamorphic relations (mean-independence, order "
              "invariance, monotonicity, non-negativity, repeat-after-mutation on one object) and the causal link to generated "
              "LGANMs under interventions complete the check.")
LEVEL_NOTE = "Trusted: Fraction linear algebra in /verif/harness/exact.py and the C01 exact law; condition-scaled tolerances, ill-conditioned cases discarded."
TECHNIQUE = "Hypothesis structured generation vs. exact rational normal-equation oracle + metamorphic relations"
DESIGN_REF = "DESIGN.md section 4, C06"
