"""C15 - graph relations agree with their definitions on every PDAG."""
import itertools

import math

import numpy as np
from hypothesis import strategies as st

from harness import graphs as G
from harness import strategies as S
from harness.core import Acc, Violation, fr, lib, must, must_raise
from harness.hyp import job_seed, run_property, scaled
from props.gcommon import pdag_codes

PROP = "C15"
RULE = ("Every PDAG with acyclic directed part on p<=4 nodes: pa/ch/neighbors/adj/na for all nodes and node pairs, "
        "ancestors/an/descendants/desc for all nodes, semi_directed_paths for all ordered pairs, chain_component for all nodes, "
        "separates for every assignment of the nodes to S/A/B/none with A and B non-empty (p<=3 exhaustive in a p<=4 graph: "
        "all 3^p.. triples at p<=4), plus overlapping triples (ValueError). transitive_closure on every DAG p<=4. Hypothesis: "
        "PDAGs p<=7 (paths, separation), sparse PDAGs relabelled into 9..12 nodes, signed / path-cancelling DAG weight "
        "matrices. Oracles: edge-set definitions; bitset transitive closure over directed edges; recursive simple-path "
        "enumeration (compared as sets of tuples + equal count => each once); union-find for chain components. Non-trivial = "
        "graph with both directed and undirected edges and >=2 distinct paths between some queried pair, or a negative weight. Also: relabelling into 9..70 labels, further dtypes, tiny weights, in-place edit of the same array object between queries.")
ASSUMPTIONS = [
    "graphs with directed cycles are outside the domain (the library's recursive functions do not terminate there)",
    "semi_directed_paths is not queried with fro == to (the trivial path is not part of the statement)",
    "the order of returned paths / set elements is free",
]


def _layered(layers, a, weighted):
    """Complete layers: every node of layer k points to every node of layer k+1; labels scrambled by i -> (a*i + 3) mod p
    (a coprime to p); weights of both signs when asked.  Fan-in / fan-out of 128 and more with very few paths."""
    p = sum(layers)
    lab = [(a * i + 3) % p for i in range(p)]
    M = np.zeros((p, p))
    start = 0
    for k in range(len(layers) - 1):
        for i in range(start, start + layers[k]):
            for j in range(start + layers[k], start + layers[k] + layers[k + 1]):
                M[lab[i], lab[j]] = (-1.5 if (i + j) % 3 == 0 else 0.75) if weighted else 1
        start += layers[k]
    return M if weighted else M.astype(np.int64)


def _mat(case):
    if "layers" in case:
        M = _layered(case["layers"], case["a"], case.get("weighted", False))
        return M.astype(case["dtype8"]) if case.get("dtype8") else M
    if "W" in case:
        from props.gcommon import relayout
        return relayout(np.array([[float(fr(x)) for x in row] for row in case["W"]], dtype=float))
    from props.gcommon import DTYPES, relayout
    return relayout(np.array(case["A"], dtype=DTYPES.get(case.get("dtype", "int"))))


# --------------------------------------------------------------------------- oracle pieces

def _paths(rows, d, u, a, b):
    """All simple paths a ~> b following directed edges forwards or undirected edges."""
    out = []
    nxt = [d[i] | u[i] for i in range(len(rows))]

    def rec(v, path, seen):
        if v == b:
            out.append(tuple(path))
            return
        for w in G.bits(nxt[v] & ~seen):
            rec(w, path + [w], seen | (1 << w))

    rec(a, [a], 1 << a)
    return out


def _components(u):
    p = len(u)
    parent = list(range(p))

    def find(x):
        while parent[x] != x:
            parent[x] = parent[parent[x]]
            x = parent[x]
        return x

    for i in range(p):
        for j in G.bits(u[i]):
            parent[find(i)] = find(j)
    return [set(j for j in range(p) if find(j) == find(i)) for i in range(p)]


def _as_set(x, what):
    # any collection of node indices is accepted (the property speaks of "the nodes"), but no node twice
    try:
        items = [int(v) for v in x]
    except TypeError:
        raise Violation("bad_type", "%s returned %r (%s), expected a collection of nodes" % (what, x, type(x).__name__))
    if len(items) != len(set(items)):
        raise Violation("bad_type", "%s lists a node twice: %r" % (what, items))
    return set(items)


def check(case):
    A = _mat(case)
    lab = _check_graph(case, A)
    if case.get("edit"):
        # the caller edits the SAME array object in place (drops / adds an edge) and asks again: answers must follow the
        # edit (no other array with these values was shown to the library in between)
        first = dict(case, what=["paths", "sep", "reach", "comp"])
        i, j, mode = case["edit"]
        p = len(A)
        i, j = i % p, j % p
        edited = False
        if mode == "drop":
            nz = np.argwhere(A != 0)
            if len(nz):
                a, b = nz[(i * p + j) % len(nz)]
                A[a, b] = 0
                edited = True
        elif i != j and A[i, j] == 0 and A[j, i] == 0:
            A[i, j] = 1
            edited = True
        if edited and G.directed_part_acyclic(G.rows_from_matrix(A)):
            _check_graph(first, A, "after an in-place edit of the same array: ")
            lab = lab + ["edited_in_place"]
    return lab


def _check_graph(case, A, prefix=""):
    import sempler.utils as utils
    keep = A.copy()
    rows = G.rows_from_matrix(A)
    p = len(rows)
    d, u = G.split(rows)
    t = G.transpose(d)
    lab = []
    if any(d) and any(u):
        lab.append("mixed")
    if (A < 0).any():
        lab.append("neg")
    ctx = prefix + "A=%s" % A.tolist()
    what = case.get("what", ["basic", "reach", "paths", "comp", "sep"])
    nodes = case.get("nodes", list(range(p)))
    from props.gcommon import npint, npints
    salt = int(np.count_nonzero(A)) + p

    def ni(v, extra=0):                   # a node index as callers have it: int, or a numpy integer (np.where, np.argmax ...)
        return npint(v, salt + 5 * v + extra, narrow=True)

    if "basic" in what:
        for i in nodes:
            for name, fn, want in (("pa", utils.pa, t[i]), ("ch", utils.ch, d[i]), ("neighbors", utils.neighbors, u[i]),
                                   ("adj", utils.adj, d[i] | t[i] | u[i])):
                got = _as_set(must(lib(fn, ni(i), A), name), name)
                if got != set(G.bits(want)):
                    raise Violation("%s_wrong" % name, "%s(%d) = %s, expected %s; %s" % (name, i, sorted(got), G.bits(want), ctx))
        for y in nodes:
            for x in nodes:
                got = _as_set(must(lib(utils.na, ni(y), ni(x, 1), A), "na"), "na")
                want = u[y] & (d[x] | t[x] | u[x])
                if got != set(G.bits(want)):
                    raise Violation("na_wrong", "na(%d,%d) = %s, expected %s; %s" % (y, x, sorted(got), G.bits(want), ctx))
    if "reach" in what:
        desc = G.reach(rows)
        anc = G.transpose(desc)
        for i in nodes:
            for name, fn in (("ancestors", utils.ancestors), ("an", utils.an)):
                got = _as_set(must(lib(fn, ni(i, 2), A), name), name)
                if got != set(G.bits(anc[i])):
                    raise Violation("%s_wrong" % name, "%s(%d) = %s, expected %s; %s" % (name, i, sorted(got), G.bits(anc[i]), ctx))
            for name, fn in (("descendants", utils.descendants), ("desc", utils.desc)):
                got = _as_set(must(lib(fn, ni(i, 3), A), name), name)
                want = set(G.bits(desc[i])) | {i}
                if got != want:
                    raise Violation("%s_wrong" % name, "%s(%d) = %s, expected %s; %s" % (name, i, sorted(got), sorted(want), ctx))
        if not any(u):
            tc = np.asarray(must(lib(utils.transitive_closure, A), "transitive_closure"))
            if tc.shape != (p, p) or G.rows_from_matrix(tc) != desc:
                raise Violation("closure_wrong", "transitive_closure = %s, expected pattern %s; %s"
                                % (tc.tolist(), G.lists_from_rows(desc), ctx))
            lab.append("closure")
    multi = False
    if "paths" in what:
        for a in nodes:
            for b in nodes:
                if a == b:
                    continue
                want = _paths(rows, d, u, a, b)
                res = must(lib(utils.semi_directed_paths, ni(a, b), ni(b, a + 1), A), "semi_directed_paths")
                got = [tuple(int(v) for v in path) for path in res]
                if len(want) >= 2:
                    multi = True
                if len(got) != len(set(got)):
                    raise Violation("paths_duplicate", "semi_directed_paths(%d,%d) lists a path twice: %s; %s" % (a, b, got, ctx))
                if set(got) != set(want):
                    raise Violation("paths_wrong", "semi_directed_paths(%d,%d) = %s, expected %s; %s" % (a, b, sorted(got), sorted(want), ctx))
    if "comp" in what:
        comps = _components(u)
        for i in nodes:
            got = _as_set(must(lib(utils.chain_component, ni(i, 4), A), "chain_component"), "chain_component")
            if got != comps[i]:
                raise Violation("component_wrong", "chain_component(%d) = %s, expected %s; %s" % (i, sorted(got), sorted(comps[i]), ctx))
    if "sep" in what:
        for (Sset, Aset, Bset) in _triples(case, p):
            Sset, Aset, Bset = set(Sset), set(Aset), set(Bset)
            Sarg, Aarg, Barg = (npints(set(Sset), salt + len(Sset), True), npints(set(Aset), salt + len(Aset) + 1, True),
                                npints(set(Bset), salt + 2 * len(Bset) + 2, True))       # sets or frozensets of ints / numpy ints
            o = lib(utils.separates, Sarg, Aarg, Barg, A)
            if [{int(v) for v in x} for x in (Sarg, Aarg, Barg)] != [Sset, Aset, Bset]:
                raise Violation("argument_set_modified", "separates changed a set it was given: S=%r A=%r B=%r (were %r %r %r); %s"
                                % (sorted(int(v) for v in Sarg), sorted(int(v) for v in Aarg), sorted(int(v) for v in Barg),
                                   sorted(Sset), sorted(Aset), sorted(Bset), ctx))
            if (Sset & Aset) or (Sset & Bset) or (Aset & Bset):
                must_raise(o, ValueError, "separates(overlapping sets)")
                lab.append("sep_overlap")
                continue
            want = True
            npaths = 0
            for a in Aset:
                for b in Bset:
                    for path in _paths(rows, d, u, a, b):
                        npaths += 1
                        if not (set(path) & Sset):
                            want = False
            if npaths >= 2:
                multi = True
            got = must(o, "separates")
            if bool(got) != want:
                raise Violation("separates_wrong", "separates(S=%s, A=%s, B=%s) = %r, expected %r; %s"
                                % (sorted(Sset), sorted(Aset), sorted(Bset), got, want, ctx))
            lab.append("sep_true" if want else "sep_false")
    if multi:
        lab.append("multi_path")
    if not (A == keep).all():
        raise Violation("input_modified", "a graph relation modified its argument")
    return sorted(set(lab))


def _triples(case, p):
    if "triples" in case:
        return case["triples"]
    out = []
    if case.get("all_triples"):
        for assign in itertools.product((0, 1, 2, 3), repeat=p):
            Sset = [i for i in range(p) if assign[i] == 1]
            Aset = [i for i in range(p) if assign[i] == 2]
            Bset = [i for i in range(p) if assign[i] == 3]
            if Aset and Bset:
                out.append((Sset, Aset, Bset))
        if p >= 2:
            out.append(([0], [0], [1]))
            out.append(([], [0, 1], [1]))
            out.append(([1], [0], [1]))
    return out


def _nontrivial(case, labels):
    return ("mixed" in labels and "multi_path" in labels) or "neg" in labels


def _run_exh(acc, job):
    for k, (code, P) in enumerate(pdag_codes(job["p"])):
        if k % job["nshards"] != job["shard"]:
            continue
        case = {"sub": "pdag_exh", "A": G.lists_from_rows(P), "dtype": ["int", "float", "uint8", "bool", "int32", "float32"][code % 6], "all_triples": True}
        try:
            lab = check(case)
            acc.record(case, lab, _nontrivial(case, lab), by_construction=True, sample=(code % 997 == 1))
        except Violation as v:
            acc.record(case, [], False)
            acc.violation(case, v)
    acc.exhaustive = True


@st.composite
def _sets(draw, p):
    assign = draw(st.lists(st.integers(0, 5), min_size=p, max_size=p))
    Sset = [i for i in range(p) if assign[i] == 1]
    Aset = [i for i in range(p) if assign[i] in (2, 4)]
    Bset = [i for i in range(p) if assign[i] in (3, 5)]
    if draw(st.integers(0, 9)) == 0 and p >= 1:          # overlapping triple
        v = draw(st.integers(0, p - 1))
        which = draw(st.sampled_from(["SA", "SB", "AB"]))
        if "S" in which:
            Sset = sorted(set(Sset) | {v})
        if "A" in which:
            Aset = sorted(set(Aset) | {v})
        if "B" in which:
            Bset = sorted(set(Bset) | {v})
    return [Sset, Aset, Bset]


@st.composite
def _hyp_case(draw):
    kind = draw(st.sampled_from(["pdag", "pdag", "embedded", "weighted", "faithless", "weighted_embedded", "wide"]))
    if kind == "pdag":
        A = draw(S.pdag(2, 7, weights=(3, 2, 2)))
        case = {"A": A, "dtype": draw(st.sampled_from(["int", "float", "uint8", "bool", "float32"]))}
    elif kind == "wide":
        A = draw(S.embedded_wide(draw(S.pdag(2, 7, weights=(3, 2, 2)))))
        case = {"A": A, "dtype": draw(st.sampled_from(["int", "float", "uint8", "bool"]))}
    elif kind == "embedded":
        A = draw(S.embedded(draw(S.pdag(2, 6, weights=(3, 2, 2)))))
        case = {"A": A, "dtype": draw(st.sampled_from(["int", "float", "uint8", "bool", "float32"]))}
    elif kind == "weighted":
        W, cls = draw(S.weighted_dag(2, 8))
        case = {"W": W}
    elif kind == "faithless":
        case = {"W": draw(S.faithless_dag(3, 7))}
    else:
        W, cls = draw(S.weighted_dag(2, 6))
        case = {"W": draw(S.embedded(W))}
    p = len(case.get("A", case.get("W")))
    case["triples"] = draw(st.lists(_sets(p), min_size=1, max_size=3))
    if p > 8:
        # keep the all-pairs loops affordable on the relabelled graphs: query the non-isolated nodes + 2 others
        M = case.get("A", case.get("W"))
        act = [i for i in range(p) if any(M[i][j] != 0 or M[j][i] != 0 for j in range(p))]
        rest = [i for i in range(p) if i not in act][:2]
        case["nodes"] = act + rest
    case["sub"] = "hyp"
    case["kind"] = kind
    if draw(st.integers(0, 2)) == 0 and p <= 8:
        case["edit"] = [draw(st.integers(0, 11)), draw(st.integers(0, 11)), draw(st.sampled_from(["drop", "drop", "add"]))]
    return case


def _hyp_check(case):
    return check(case) + ["kind_" + case["kind"]]


def plan(tier, seed):
    jobs = []
    for p in (1, 2, 3):
        jobs.append({"sub": "pdag_exh", "p": p, "shard": 0, "nshards": 1, "seed": seed, "cost": 1})
    for k in range(16):
        jobs.append({"sub": "pdag_exh", "p": 4, "shard": k, "nshards": 16, "seed": seed, "cost": 10})
    n = scaled(4800 if tier == "quick" else 80000)
    shards = 16 if tier == "quick" else 64
    for k in range(shards):
        jobs.append({"sub": "hyp", "seed": seed, "shard": k, "n": max(1, n // shards), "cost": 8})
    for k, layers in enumerate([[3, 150, 2], [1, 200, 1], [2, 129, 3, 2], [130, 2], [1, 256, 1], [2, 512, 1]] + ([[4, 260, 2], [2, 140, 140, 1]] if tier == "thorough" else [])):
        jobs.append({"sub": "layered", "seed": seed, "layers": layers, "index": k, "cost": 15})
    if tier == "thorough":
        for k in range(64):
            jobs.append({"sub": "pdag_p5_slice", "p": 5, "shard": k, "nshards": 64, "step": 8, "offset": seed, "seed": seed, "cost": 40})
    return jobs


def _run_p5(acc, job):
    """A seed-dependent 1/8 slice of the 765,664 PDAGs on 5 nodes (basic relations, reachability,
    paths and components for all nodes / pairs; separation for one triple per graph)."""
    n = 0
    for k, (code, P) in enumerate(pdag_codes(5)):
        if k % job["nshards"] != job["shard"]:
            continue
        n += 1
        if n % job["step"] != job["offset"] % job["step"]:
            continue
        a = code % 5
        b = (a + 1 + (code // 5) % 4) % 5
        s = [x for x in range(5) if x not in (a, b) and (code >> x) & 1]
        case = {"sub": "pdag_p5_slice", "A": G.lists_from_rows(P), "dtype": "int", "triples": [[s, [a], [b]]]}
        try:
            lab = check(case)
            acc.record(case, lab, _nontrivial(case, lab), by_construction=True, sample=(code % 99991 == 7))
        except Violation as v:
            acc.record(case, [], False)
            acc.violation(case, v)
    acc.exhaustive = False


def run(job):
    acc = Acc(job["sub"])
    if job["sub"] == "pdag_exh":
        _run_exh(acc, job)
    elif job["sub"] == "pdag_p5_slice":
        _run_p5(acc, job)
    elif job["sub"] == "layered":
        layers = job["layers"]
        p = sum(layers)
        a = next(x for x in range(7 + job["seed"] % 5, 7 + job["seed"] % 5 + 4 * p) if math.gcd(x, p) == 1)
        lab = [(a * i + 3) % p for i in range(p)]
        ends = [lab[i] for i in list(range(min(3, layers[0]))) + list(range(p - min(3, layers[-1]), p))] + [lab[layers[0]]]
        for weighted in (False, True, "uint8", "int8"):
            case = {"sub": "layered", "layers": layers, "a": a, "weighted": weighted is True, "what": ["reach", "basic"], "nodes": sorted(set(ends))}
            if isinstance(weighted, str):
                case["dtype8"] = weighted           # 0/1 matrices are often kept in 8 bits: counts of 256 wrap to 0 there
            try:
                labs = check(case)
                acc.record(case, labs + ["layered", "fan_ge_128"], True, by_construction=True)
            except Violation as v:
                acc.record(case, [], False)
                acc.violation(case, v)
        acc.exhaustive = False
    else:
        run_property(acc, _hyp_case(), _hyp_check, _nontrivial, job["n"], job_seed(job))
        acc.exhaustive = False
    return acc


def selfcheck():
    G.selfcheck()


LEVEL_TEXT = ("Exploration, exhaustive over every PDAG with acyclic directed part up to 4 nodes (all nodes, ordered pairs and "
              "S/A/B assignments), sampled beyond (Hypothesis PDAGs to 7 nodes, sparse graphs relabelled into 9-12 nodes, "
              "signed and path-cancelling weight matrices; a 1/8 slice of the 5-node PDAGs in the thorough tier). Every listed "
              "relation is compared with an independent definition-level oracle.")
LEVEL_NOTE = "Trusted: bitset closure, recursive path enumeration and union-find in /verif/props/c15.py and /verif/harness/graphs.py."
TECHNIQUE = "exhaustive small-PDAG enumeration + Hypothesis vs. definition-level reachability / path / union-find oracles"
DESIGN_REF = "DESIGN.md section 4, C15"
