"""C14 - models are immutable under use and caller data is never modified."""
import copy
from fractions import Fraction

import numpy as np
from hypothesis import strategies as st

from harness import graphs as G
from harness import strategies as S
from harness.core import Acc, Violation, fr, lib, must
from harness.hyp import history_machine_factory, job_seed, run_machine, run_property, scaled

PROP = "C14"
RULE = ("(a) Hypothesis rule-based state machines over ONE LGANM / NormalDistribution / ANM built from caller-owned arrays (drawn "
        "model, int or float dtype): rules = sample (finite with random_state, and population) under drawn do/shift/noise "
        "intervention dicts, marginal / conditional / regress / mse queries, 'mutate the caller's original arrays', 'overwrite every "
        "array returned so far'. After every step: public attributes (bytes, dtype, shape) equal the post-construction snapshot, the "
        "observational population law is unchanged, the result of the step equals the same call on a FRESH model built from "
        "pristine copies (history independence), intervention dicts passed in are unchanged, results share no memory with caller "
        "or model storage. (b) Argument-preservation sweep: every public function of sempler.utils (graph relations, "
        "decompositions, equivalence-class routines, split_data, add/remove_edges, helpers), sempler.generators, the three model "
        "classes and DRFNet (stand-in backend) called on generated caller-owned arrays / sets / dicts / lists: deep snapshot of "
        "every argument before == after, results do not alias arguments, writing into results changes no argument. Non-trivial = "
        "(a) a query executed after >= 1 intervened sample and >= 1 caller-side mutation; (b) a call whose result contains an "
        "ndarray derived from an ndarray argument. Also: repeat of every sweep call after overwriting its first result and after an in-place edit of the caller's array object (vs. a call on a fresh copy), colliding intervention settings, callable-object and table-backed noise in the ANM machine, index arrays with negative entries.")
ASSUMPTIONS = [
    "functions stored inside an ANM are atomic (as for copy.deepcopy): shared closures are not 'caller arrays'",
    "the documented output buffer of utils.cartesian is exempt",
    "finite samples are compared through random_state-seeded calls (reproducibility itself is C13)",
]


def _snap(x):
    if isinstance(x, np.ndarray):
        return ("nd", str(x.dtype), x.shape, x.tobytes())
    if isinstance(x, (list, tuple)):
        return (type(x).__name__,) + tuple(_snap(v) for v in x)
    if isinstance(x, (set, frozenset)):
        return ("set", tuple(sorted(repr(v) for v in x)))
    if isinstance(x, dict):
        return ("dict",) + tuple((repr(k), _snap(v)) for k, v in sorted(x.items(), key=lambda kv: repr(kv[0])))
    if callable(x):
        return ("callable", id(x))
    return ("val", repr(x))


def _arrays(x, out=None):
    out = [] if out is None else out
    if isinstance(x, np.ndarray):
        out.append(x)
    elif isinstance(x, (list, tuple)):
        for v in x:
            _arrays(v, out)
    elif isinstance(x, dict):
        for v in x.values():
            _arrays(v, out)
    elif hasattr(x, "mean") and hasattr(x, "covariance"):
        _arrays([x.mean, x.covariance], out)
    return out


def _scribble(arrs):
    for a in arrs:
        if isinstance(a, np.ndarray) and a.size and a.flags.writeable:
            try:
                a[...] = 77 if a.dtype != bool else True
            except (ValueError, TypeError):
                pass


IVS = [dict(), dict(do_interventions={0: (1.5, 2.0)}), dict(do_interventions={1: 3}),
       dict(shift_interventions={0: (1, 1)}, noise_interventions={1: (0.5, 0.5)}),
       dict(noise_interventions={0: 2.5}, do_interventions={2: (0, 1)}), dict(do_interventions={0: 1}, shift_interventions={0: (2, 2)}),
       dict(shift_interventions={1: 0.5, 2: (1, 0.25)}),
       # identical parameters on one target under different intervention types (results must not be confused)
       dict(noise_interventions={2: (1.0, 2.0)}), dict(do_interventions={2: (1.0, 2.0)}), dict(shift_interventions={2: (1.0, 2.0)})]


class LganmRunner:
    kind = "lganm"

    def __init__(self):
        self.model = None
        self.returned = []
        self.n_intervened = self.n_mutations = self.n_queries_after = 0

    def _build(self, W, means, variances):
        import sempler
        return sempler.LGANM(W, means, variances)

    def _attrs(self, m):
        return _snap([m.W, m.means, m.variances, m.p])

    def step(self, step):
        op = step["op"]
        if op == "init":
            dt = {"int": np.int64, "float": float}
            W = np.array([[float(fr(x)) for x in row] for row in step["W"]])
            self.caller = [W.astype(dt[step["dtypes"][0]]), np.array([float(fr(x)) for x in step["means"]]).astype(dt[step["dtypes"][1]]),
                           np.array([float(fr(x)) for x in step["variances"]]).astype(dt[step["dtypes"][2]])]
            from props.gcommon import relayout
            self.caller = [relayout(a) for a in self.caller]          # C / Fortran order / strided view: all are the caller's arrays
            self.pristine = [a.copy() for a in self.caller]
            self.model = must(lib(self._build, *self.caller), "LGANM(...)")
            self.snapshot = self._attrs(self.model)
            self.law0 = _snap(_arrays(must(lib(self.model.sample, population=True), "population law")))
            for a, attr in zip(self.caller, (self.model.W, self.model.means, self.model.variances)):
                if np.shares_memory(a, attr):
                    raise Violation("model_aliases_caller", "LGANM attribute shares memory with the caller's array")
            return
        if self.model is None:
            return
        p = self.model.p
        if op == "sample":
            iv = {k: {t: v for t, v in d.items() if t < p} for k, d in copy.deepcopy(IVS[step["iv"]]).items()}
            iv = {k: d for k, d in iv.items() if d or step.get("pass_empty")}
            given = copy.deepcopy(iv)
            kw = dict(population=True) if step["pop"] else dict(n=step["n"], random_state=step["seed"])
            res = must(lib(self.model.sample, **kw, **iv), "sample(%r, %r)" % (kw, iv))
            if _snap(iv) != _snap(given):
                raise Violation("intervention_dict_modified", "LGANM.sample changed the intervention dict it was given: %r -> %r" % (given, iv))
            fresh = must(lib(self._build, *[a.copy() for a in self.pristine]), "fresh LGANM")
            want = must(lib(fresh.sample, **kw, **copy.deepcopy(given)), "fresh sample")
            if _snap(_arrays(res)) != _snap(_arrays(want)):
                raise Violation("history_dependent", "sample(%r, %r) differs from the same call on a fresh model built from pristine copies" % (kw, given))
            for a in _arrays(res):
                for b in (self.model.W, self.model.means, self.model.variances):
                    if np.shares_memory(a, b):
                        raise Violation("result_aliases_model", "an array returned by sample shares memory with a model attribute")
            self.returned += _arrays(res)
            if any(iv.values()):
                self.n_intervened += 1
            if self.n_intervened and self.n_mutations:
                self.n_queries_after += 1
        elif op == "mutate_caller":
            for a in self.caller:
                a += 7
            self.n_mutations += 1
        elif op == "scribble":
            _scribble(self.returned)
            self.returned = []
            self.n_mutations += 1
        self._invariant()

    def _invariant(self):
        if self._attrs(self.model) != self.snapshot:
            raise Violation("model_mutated", "public attributes of the %s changed after the call history" % self.kind)
        law = _snap(_arrays(must(lib(self.model.sample, population=True), "population law")))
        if law != self.law0:
            raise Violation("observational_law_changed", "the observational population law of the LGANM changed after the call history")


class NormalRunner:
    kind = "normal"

    def __init__(self):
        self.model = None
        self.returned = []
        self.n_intervened = self.n_mutations = self.n_queries_after = 0

    def step(self, step):
        import sempler
        op = step["op"]
        if op == "init":
            B = np.array([[float(fr(x)) for x in row] for row in step["B"]])
            cov = B @ B.T + np.diag([float(fr(x)) for x in step["d"]])
            mean = np.array([float(fr(x)) for x in step["mean"]])
            if step.get("int"):
                mean, cov = np.round(mean).astype(np.int64), np.round(cov * 4).astype(np.int64)
            from props.gcommon import relayout
            self.caller = [relayout(mean), relayout(cov)]
            self.pristine = [a.copy() for a in self.caller]
            self.model = must(lib(sempler.NormalDistribution, *self.caller), "NormalDistribution(...)")
            self.snapshot = _snap([self.model.mean, self.model.covariance, self.model.p])
            for a, attr in zip(self.caller, (self.model.mean, self.model.covariance)):
                if np.shares_memory(a, attr):
                    raise Violation("model_aliases_caller", "NormalDistribution attribute shares memory with the caller's array")
            return
        if self.model is None:
            return
        p = self.model.p
        if op in ("sample", "marginal", "conditional", "regress", "mse", "cond_nothing"):
            idx = [i % p for i in step.get("idx", [0])]
            idx = list(dict.fromkeys(idx))
            if step.get("identity") and op in ("marginal", "cond_nothing"):
                idx = list(range(p))              # "all variables, as they are": the result must still be a new object
            if step.get("negative"):
                idx = [i - p if k % 2 == 0 else i for k, i in enumerate(idx)]      # -1 .. -p are legal numpy indices
            args_store = []
            order_flip = [False]

            def call(m):
                if op == "sample":
                    return m.sample(step["n"], random_state=step["seed"])
                if op == "marginal":
                    a = np.array(idx, dtype=np.int64) if step.get("as_array") else list(idx)
                    args_store.append(a)
                    return m.marginal(a)
                if op == "cond_nothing":
                    a = np.array(idx, dtype=np.int64) if step.get("as_array") else list(idx)
                    return m.conditional(a, [], [])
                if op == "conditional":
                    if len(idx) < 2:
                        return None
                    k = max(1, len(idx) // 2)
                    Y, Xi = list(idx[:k]), list(idx[k:])
                    if order_flip[0]:
                        Xi = Xi[::-1]
                    if step.get("as_array"):
                        Y, Xi = np.array(Y, dtype=np.int64), np.array(Xi, dtype=np.int64)
                    x = np.arange(len(Xi), dtype=float) - 0.5
                    if order_flip[0]:
                        x = x[::-1].copy()
                    args_store.extend([Y, Xi, x])
                    return m.conditional(Y, Xi, x)
                if op == "regress":
                    Sx = np.array(idx[1:], dtype=np.int64) if step.get("as_array") else list(idx[1:])
                    args_store.append(Sx)
                    return m.regress(idx[0], Sx)
                Sx = np.array(idx[1:], dtype=int)
                args_store.append(Sx)
                return m.mse(idx[0], Sx)
            # the arguments are created inside call(); what they must still look like afterwards is known in advance
            expect = {"marginal": lambda: [np.array(idx, dtype=np.int64) if step.get("as_array") else list(idx)],
                      "regress": lambda: [np.array(idx[1:], dtype=np.int64) if step.get("as_array") else list(idx[1:])],
                      "mse": lambda: [np.array(idx[1:], dtype=int)]}
            o_res = lib(call, self.model)
            if not o_res.ok and step.get("negative"):
                return        # negative indices are numpy semantics, not part of the contract: a rejection is not judged
            res = must(o_res, "%s(%s)" % (op, idx))
            if op in expect and _snap(args_store) != _snap(expect[op]()):
                raise Violation("argument_modified", "%s modified the index argument it was given: %r (was %r)" % (op, args_store, expect[op]()))
            if op == "conditional" and len(idx) >= 2:
                k = max(1, len(idx) // 2)
                wantY, wantX = list(idx[:k]), list(idx[k:])
                if step.get("as_array"):
                    wantY, wantX = np.array(wantY, dtype=np.int64), np.array(wantX, dtype=np.int64)
                if _snap(args_store) != _snap([wantY, wantX, np.arange(len(idx) - k, dtype=float) - 0.5]):
                    raise Violation("argument_modified", "conditional modified an index / value argument: %r" % (args_store,))
            fresh = must(lib(sempler.NormalDistribution, *[a.copy() for a in self.pristine]), "fresh NormalDistribution")
            args_store2 = args_store
            args_store = []
            want = must(lib(call, fresh), "fresh %s" % op)
            if _snap(_arrays(res) or res) != _snap(_arrays(want) or want):
                raise Violation("history_dependent", "%s(%s) differs from the same call on a fresh distribution built from pristine copies" % (op, idx))
            for a in _arrays(res):
                for b in (self.model.mean, self.model.covariance):
                    if np.shares_memory(a, b):
                        raise Violation("result_aliases_model", "%s returned an array sharing memory with the distribution's storage" % op)
            if op == "conditional" and len(idx) >= 3:
                # the same conditioning set in the opposite order (values permuted alike), on the same object: compared
                # with a fresh distribution that has never seen the first order
                order_flip[0] = True
                args_store = []
                res_b = must(lib(call, self.model), "conditional (conditioning variables reversed)")
                fresh_b = must(lib(sempler.NormalDistribution, *[a.copy() for a in self.pristine]), "fresh NormalDistribution")
                args_store = []
                want_b = must(lib(call, fresh_b), "fresh conditional (reversed)")
                if _snap(_arrays(res_b)) != _snap(_arrays(want_b)):
                    raise Violation("history_dependent", "conditional with the conditioning variables %s in reversed order differs from the same "
                                    "call on a fresh distribution (a result of the first order is being reused)" % (idx[max(1, len(idx) // 2):],))
                order_flip[0] = False
            self.returned += _arrays(res)
            self.n_intervened += 1
            if self.n_mutations:
                self.n_queries_after += 1
        elif op == "mutate_caller":
            for a in self.caller:
                a += 7
            self.n_mutations += 1
        elif op == "scribble":
            _scribble(self.returned)
            self.returned = []
            self.n_mutations += 1
        if _snap([self.model.mean, self.model.covariance, self.model.p]) != self.snapshot:
            raise Violation("model_mutated", "mean / covariance of the NormalDistribution changed after the call history")


class ParamNoise:
    """Noise distribution given as a callable *object* that holds its parameters in an array (location, scale)."""

    def __init__(self, params):
        self.params = params

    def __call__(self, n):
        return self.params[0] + self.params[1] * np.random.standard_normal(n)


class AnmRunner:
    kind = "anm"

    def __init__(self):
        self.model = None
        self.returned = []
        self.n_intervened = self.n_mutations = self.n_queries_after = 0

    def _build(self, A):
        import sempler
        import sempler.noise as noise
        p = len(A)
        assignments = []
        for i in range(p):
            k = int((A[:, i] != 0).sum())
            assignments.append(None if k == 0 else (lambda Xb, c=np.arange(1, k + 1, dtype=float): np.tanh(Xb) @ c))
        self.noises = [noise.normal(i, 1 + i) if i % 2 == 0 else noise.uniform(-1 - i, 1) for i in range(p)]
        if p >= 2:
            self.noises[p - 1] = ParamNoise(np.array([0.5, 2.0]))         # a callable object holding an array
            self.param_noise = self.noises[p - 1]
        if p >= 3:
            pool = np.sin(np.arange(64.0)) * 2.0                          # a "distribution" replaying stored residuals
            self.noises[p - 2] = lambda n, pool=pool: pool[:n]
        self.assign_list = assignments
        return sempler.ANM(A, assignments, self.noises)

    def _attrs(self, m):
        # documented attributes: A, p, assignments, noise_distributions ('ordering' is internal: used only if present)
        order = getattr(m, "ordering", None)
        return _snap([np.asarray(m.A), None if order is None else [int(x) for x in order], m.p, len(m.assignments), len(m.noise_distributions)])

    def step(self, step):
        import sempler.noise as noise
        op = step["op"]
        if op == "init":
            A = np.array([[float(fr(x)) for x in row] for row in step["W"]])
            if step.get("int") and (A == np.round(A)).all():
                A = A.astype(np.int64)
            if step.get("dtype"):            # the graph as a 0/1 matrix of another type (an ANM only reads the non-zero pattern)
                A = (A != 0).astype({"bool": bool, "uint8": np.uint8, "float32": np.float32, "int32": np.int32}[step["dtype"]])
            from props.gcommon import relayout
            A = relayout(A)
            self.caller = [A]
            self.pristine = [A.copy()]
            self.model = must(lib(self._build, A), "ANM(...)")
            self.caller_lists = (self.assign_list, self.noises)
            self.snapshot = self._attrs(self.model)
            if np.shares_memory(np.asarray(self.model.A), A):
                raise Violation("model_aliases_caller", "ANM.A shares memory with the caller's adjacency")
            if self.model.noise_distributions is self.noises or self.model.assignments is self.assign_list:
                raise Violation("model_aliases_caller", "ANM keeps the caller's list object")
            # a second model built from the very same array / lists / callable objects: the two models are independent objects
            import sempler
            twin = lib(sempler.ANM, A, self.assign_list, self.noises)
            if twin.ok:
                for a, b in zip(self.model.noise_distributions, twin.value.noise_distributions):
                    if isinstance(a, ParamNoise) and (a is b or np.shares_memory(a.params, b.params)):
                        raise Violation("models_share_storage", "two ANMs built from the same callable objects hold the SAME copy of a "
                                        "noise object: changing one model changes the other")
                for b in twin.value.noise_distributions:
                    if isinstance(b, ParamNoise):
                        b.params += 1000.0           # the owner of the second model edits it: the first must not notice
                if np.shares_memory(np.asarray(twin.value.A), np.asarray(self.model.A)):
                    raise Violation("models_share_storage", "two ANMs built from the same array share their adjacency")
            return
        if self.model is None:
            return
        p = self.model.p
        if op == "sample":
            table = [dict(), dict(do_interventions={0: noise.normal(1, 2)}), dict(shift_interventions={p - 1: noise.uniform(0, 1)}),
                     dict(shift_interventions={max(p - 2, 0): noise.normal(2, 1)}),
                     dict(noise_interventions={0: noise.laplace(0, 1)}, do_interventions={p - 1: noise.normal(0, 1)}),
                     dict(do_interventions={0: noise.uniform(2, 3)}, shift_interventions={0: noise.normal(0, 1)})]
            iv = table[step["iv"] % len(table)]
            given = {k: dict(v) for k, v in iv.items()}
            res = must(lib(self.model.sample, step["n"], random_state=step["seed"], **iv), "ANM.sample")
            if {k: set(v) for k, v in iv.items()} != {k: set(v) for k, v in given.items()} or any(iv[k][t] is not given[k][t] for k in iv for t in iv[k]):
                raise Violation("intervention_dict_modified", "ANM.sample changed the intervention dict it was given")
            saved = self.noises, self.assign_list, getattr(self, "param_noise", None)
            fresh = must(lib(self._build, self.pristine[0].copy()), "fresh ANM")
            self.noises, self.assign_list, self.param_noise = saved
            want = must(lib(fresh.sample, step["n"], random_state=step["seed"], **given), "fresh ANM.sample")
            if _snap(np.asarray(res)) != _snap(np.asarray(want)):
                raise Violation("history_dependent", "ANM.sample(n=%d, seed=%d, iv#%d) differs from the same call on a fresh model" % (step["n"], step["seed"], step["iv"]))
            self.returned += _arrays(res)
            if any(iv.values()):
                self.n_intervened += 1
            if self.n_intervened and self.n_mutations:
                self.n_queries_after += 1
        elif op == "mutate_caller":
            self.caller[0][...] = (self.caller[0] == 0)       # every entry flipped (works for any dtype, bool included)
            if getattr(self, "param_noise", None) is not None:
                self.param_noise.params += 100.0          # the caller edits the array inside its callable object
            # the caller also edits the lists it passed in
            self.caller_lists[0][0] = lambda Xb: 1e6
            self.caller_lists[1][0] = lambda n: np.full(n, 1e6)
            self.n_mutations += 1
        elif op == "scribble":
            _scribble(self.returned)
            self.returned = []
            self.n_mutations += 1
        if self._attrs(self.model) != self.snapshot:
            raise Violation("model_mutated", "A / ordering of the ANM changed after the call history")


RUNNERS = {"hist_lganm": LganmRunner, "hist_normal": NormalRunner, "hist_anm": AnmRunner}


def _finish(r):
    lab = []
    if r.n_queries_after:
        lab.append("query_after_mutation")
    if r.n_intervened:
        lab.append("intervened_sample")
    return lab, r.n_queries_after > 0


# ------------------------------------------------------------------------ (b) sweep

def _graph_arg(case):
    if "W" in case:
        return np.array([[float(fr(x)) for x in row] for row in case["W"]], dtype=float)
    return np.array(case["A"], dtype=float if case.get("dtype") == "float" else int)


def _dag_of(A):
    """Some DAG orientation of a PDAG argument (for functions whose domain is DAGs)."""
    rows = G.rows_from_matrix(A)
    d, u = G.split(rows)
    p = len(rows)
    D = np.zeros_like(A)
    for i in range(p):
        for j in range(p):
            if d[i] >> j & 1:
                D[i, j] = A[i, j]
    return D


def _sweep_calls():
    import sempler
    import sempler.utils as u
    import sempler.generators as gens
    import sempler.noise as noise
    calls = {}

    def reg(name, builder):
        calls[name] = builder
    # builder(A, D, c) -> (function, args list, kwargs dict); A: PDAG ndarray, D: DAG ndarray, c: case dict
    n2 = lambda c, p: (c["i"] % p, c["j"] % p)
    for name in ("pa", "ch", "neighbors", "adj", "an", "desc", "ancestors", "descendants", "chain_component"):
        reg(name, lambda A, D, c, f=getattr(u, name): (f, [c["i"] % len(A), A], {}))
    reg("na", lambda A, D, c: (u.na, [c["i"] % len(A), c["j"] % len(A), A], {}))
    for name in ("is_dag", "is_complete", "vstructures", "degrees", "only_directed", "only_undirected", "undirected_edges",
                 "directed_edges", "edge_weights", "skeleton", "has_consistent_extension", "all_dags", "nonzero"):
        reg(name, lambda A, D, c, f=getattr(u, name): (f, [A], {}))
    for name in ("topological_ordering", "transitive_closure", "moral_graph", "mec", "dag_to_cpdag", "order_edges", "to_factorization",
                 "sampling_matrix", "pdag_to_cpdag", "pdag_to_dag", "maximally_orient"):
        reg(name, lambda A, D, c, f=getattr(u, name): (f, [D], {}))
    reg("pdag_to_dag_P", lambda A, D, c: (u.pdag_to_dag, [A], {}))
    reg("maximally_orient_P", lambda A, D, c: (u.maximally_orient, [A], {}))
    reg("pdag_to_cpdag_P", lambda A, D, c: (u.pdag_to_cpdag, [A], {}))
    reg("label_edges", lambda A, D, c: (u.label_edges, [u.order_edges(D)], {}))
    reg("is_clique", lambda A, D, c: (u.is_clique, [set(c["S"]), A], {}))
    reg("induced_subgraph", lambda A, D, c: (u.induced_subgraph, [set(c["S"]), A], {}))
    reg("imec", lambda A, D, c: (u.imec, [D, set(c["S"])], {}))
    reg("chain_graph_MEC", lambda A, D, c: (u.chain_graph_MEC, [len(A)], {}))
    reg("chain_graph", lambda A, D, c: (u.chain_graph, [len(A)], {}))
    reg("chain_then_mec", lambda A, D, c: (lambda p, I: [u.mec(u.chain_graph(p)), u.imec(u.chain_graph(p), I)], [len(A), set(c["S"])], {}))
    reg("dag_to_icpdag", lambda A, D, c: (u.dag_to_icpdag, [D, set(c["S"])], {}))
    reg("pdag_to_icpdag", lambda A, D, c: (u.pdag_to_icpdag, [D, set(c["S"])], {}))
    reg("semi_directed_paths", lambda A, D, c: (u.semi_directed_paths, [c["i"] % len(A), c["j"] % len(A), A], {}))
    reg("separates", lambda A, D, c: (u.separates, [set(c["S"]) - {c["i"] % len(A), c["j"] % len(A)}, {c["i"] % len(A)},
                                                     {c["j"] % len(A)} - {c["i"] % len(A)}, A], {}))
    reg("is_consistent_extension", lambda A, D, c: (u.is_consistent_extension, [D, A], {}))
    reg("are_forward_neighbors", lambda A, D, c: (u.are_forward_neighbors, [A, D, c["i"] % len(A), c["j"] % len(A)], {}))
    reg("are_backward_neighbors", lambda A, D, c: (u.are_backward_neighbors, [D, A, c["i"] % len(A), c["j"] % len(A)], {}))
    reg("are_forward_neighbors_DD", lambda A, D, c: (u.are_forward_neighbors, [D, D.copy(), c["i"] % len(A), c["j"] % len(A)], {}))
    for k in (1, 2, 3, 4):
        reg("rule_%d" % k, lambda A, D, c, f=getattr(u, "rule_%d" % k): (f, [c["i"] % len(A), c["j"] % len(A), A], {}))
    reg("add_edges", lambda A, D, c: (u.add_edges, [D, 0 if len(D) < 2 else min(1, len(D) * (len(D) - 1) // 2 - int((D != 0).sum()))], {"random_state": c["seed"]}))
    reg("remove_edges", lambda A, D, c: (u.remove_edges, [D, min(1, int((D != 0).sum()))], {"random_state": c["seed"]}))
    reg("split_data", lambda A, D, c: (u.split_data, [[np.arange(20.0).reshape(10, 2), A.astype(float)], [0.5, 0.25, 0.25]], {"random_state": c["seed"]}))
    reg("matrix_block", lambda A, D, c: (u.matrix_block, [A, sorted(c["S"]) or [0], sorted(c["S"]) or [0]], {}))
    reg("sort", lambda A, D, c: (u.sort, [list(c["S"]), list(range(len(A)))[::-1]], {}))
    reg("subsets", lambda A, D, c: (u.subsets, [set(c["S"])], {}))
    reg("member", lambda A, D, c: (u.member, [[D, A], A], {}))
    reg("delete", lambda A, D, c: (u.delete, [A, np.arange(len(A)) % 2 == 0, 0], {}))
    reg("all_but", lambda A, D, c: (u.all_but, [np.array(sorted(c["S"]) or [0]), len(A)], {}))
    reg("combinations", lambda A, D, c: (u.combinations, [min(len(A), 4), 0], {}))
    reg("sorted_tuple", lambda A, D, c: (u.sorted_tuple, [set(c["S"])], {}))
    reg("allclose", lambda A, D, c: (u.allclose, [A.astype(float), D.astype(float)], {}))
    reg("is_supergraph", lambda A, D, c: (u.is_supergraph, [A, D], {}))
    reg("has_subgraph", lambda A, D, c: (u.has_subgraph, [[A, D], [D]], {}))
    reg("has_supergraph", lambda A, D, c: (u.has_supergraph, [[D], [A, D]], {}))
    reg("cartesian", lambda A, D, c: (u.cartesian, [[np.array([0, 1]), np.array([2, 3, 4])]], {}))
    reg("argmin", lambda A, D, c: (u.argmin, [A], {}))
    reg("argmax", lambda A, D, c: (u.argmax, [A], {}))
    reg("LGANM", lambda A, D, c: (sempler.LGANM, [D, np.arange(len(D), dtype=float), np.ones(len(D))], {}))
    reg("LGANM_list", lambda A, D, c: (sempler.LGANM, [D.tolist(), (0, 1), (1, 2)], {"random_state": c["seed"]}))
    reg("LGANM.sample", lambda A, D, c: (sempler.LGANM(D, np.arange(len(D), dtype=float), np.ones(len(D))).sample, [5],
                                        dict(copy.deepcopy(IVS[c["i"] % 4 if len(D) > 2 else 0]), random_state=c["seed"])))
    reg("ANM", lambda A, D, c: (sempler.ANM, [D, [None if not (D[:, i] != 0).any() else (lambda x: x.sum(axis=1)) for i in range(len(D))],
                                              [noise.normal()] * len(D)], {}))
    reg("NormalDistribution", lambda A, D, c: (sempler.NormalDistribution, [np.arange(len(A), dtype=float), np.eye(len(A)) * 2.0], {}))
    reg("Normal.queries", lambda A, D, c: (lambda m, cov, Y, X, x: [sempler.NormalDistribution(m, cov).conditional(Y, X, x),
                                                                      sempler.NormalDistribution(m, cov).marginal(Y),
                                                                      sempler.NormalDistribution(m, cov).regress(0, X)],
                                           [np.arange(len(A) + 1, dtype=float), np.eye(len(A) + 1) * 2.0 + 0.5, np.array([0]), list(range(1, len(A) + 1)),
                                            np.ones(len(A))], {}))
    reg("dag_avg_deg", lambda A, D, c: (gens.dag_avg_deg, [max(2, len(A)), 1.5], {"random_state": c["seed"], "return_ordering": True}))
    reg("intervention_targets", lambda A, D, c: (gens.intervention_targets, [len(A) + 2, 2, (0, 2)], {"random_state": c["seed"]}))

    def drf(A, D, c):
        from sempler.semi import DRFNet
        data = [np.arange(8.0 * len(D)).reshape(8, len(D)), np.arange(9.0 * len(D)).reshape(9, len(D)) + 1000]
        return (lambda g, d, n: DRFNet(g, d).sample(n, random_state=c["seed"]), [D, data, [3, 4]], {})
    reg("DRFNet", drf)
    return calls


_CALLS = None
NON_DETERMINISTIC = {"LGANM", "ANM", "NormalDistribution", "LGANM_list", "DRFNet"}     # objects / bound methods: compared elsewhere


def _result_view(v):
    """What is compared between two identical calls: arrays, sets, lists, numbers (objects by their arrays)."""
    if hasattr(v, "mean") and hasattr(v, "covariance"):
        return [v.mean, v.covariance]
    if isinstance(v, (list, tuple)):
        return [_result_view(x) for x in v]
    if isinstance(v, dict):
        return {repr(k): _result_view(x) for k, x in v.items()}
    if hasattr(v, "__dict__") and not isinstance(v, np.ndarray):
        return "object"
    return v


def check(case):
    global _CALLS
    if case["sub"] in RUNNERS:
        r = RUNNERS[case["sub"]]()
        for step in case["history"]:
            r.step(step)
        return _finish(r)[0]
    if _CALLS is None:
        _CALLS = _sweep_calls()
    A = _graph_arg(case)
    D = _dag_of(A)
    if not G.directed_part_acyclic(G.rows_from_matrix(A)):
        return ["skipped_cyclic"]
    name = case["fn"]
    case = dict(case)
    case["S"] = [s % len(A) for s in case.get("S", [])]
    try:
        fn, args, kwargs = _CALLS[name](A, D, case)
    except Exception:             # noqa: BLE001 - building arguments with library helpers (order_edges) may fail on odd inputs
        return ["skipped_unbuildable"]
    before = _snap([args, kwargs])
    o = lib(fn, *args, **kwargs)
    after = _snap([args, kwargs])
    lab = ["fn_" + name]
    if before != after:
        raise Violation("argument_modified:%s" % name, "%s modified one of its arguments; graph=%s" % (name, A.tolist()))
    if not o.ok:
        # a documented rejection (e.g. no consistent extension) is fine here; only argument preservation is judged
        return lab + ["raised_" + o.exc_name]
    arg_arrays = _arrays(args) + _arrays(kwargs)
    res_arrays = _arrays(o.value) if not (hasattr(o.value, "W") or hasattr(o.value, "A")) else \
        [getattr(o.value, k) for k in ("W", "means", "variances", "A") if isinstance(getattr(o.value, k, None), np.ndarray)]
    if name != "cartesian":
        for ra in res_arrays:
            for aa in arg_arrays:
                if ra.size and aa.size and np.shares_memory(ra, aa):
                    raise Violation("result_aliases_argument:%s" % name, "the result of %s shares memory with an argument; graph=%s" % (name, A.tolist()))
    first = _snap(_result_view(o.value))
    _scribble(res_arrays)
    if _snap([args, kwargs]) != before:
        raise Violation("result_aliases_argument:%s" % name, "writing into the result of %s changed an argument; graph=%s" % (name, A.tolist()))
    # the same call again, after the caller overwrote what it got the first time: same answer (no cached / shared storage)
    if name not in NON_DETERMINISTIC:
        o2 = lib(fn, *args, **kwargs)
        if o2.ok and _snap(_result_view(o2.value)) != first:
            raise Violation("result_depends_on_history:%s" % name, "%s returns something else after the caller overwrote its first result "
                            "(shared or cached storage); graph=%s" % (name, A.tolist()))
        lab.append("repeated")
    if res_arrays and arg_arrays:
        lab.append("array_from_array")
    # the caller now edits its own array IN PLACE and calls again with the very same objects: the answer must be the
    # answer for the edited input, i.e. equal to a call on fresh copies (no result remembered per argument object)
    if name not in NON_DETERMINISTIC and arg_arrays:
        target = next((a for a in arg_arrays if a.ndim == 2 and a.size and (a != 0).any() and a.flags.writeable), None)
        if target is not None:
            nz = np.argwhere(target != 0)
            r, c0 = nz[case.get("i", 0) % len(nz)]
            target[r, c0] = 0
            o3 = lib(fn, *args, **kwargs)
            o4 = lib(fn, *copy.deepcopy(args), **copy.deepcopy(kwargs))
            same = (o3.ok == o4.ok) and (not o3.ok or _snap(_result_view(o3.value)) == _snap(_result_view(o4.value)))
            if not same:
                raise Violation("stale_after_inplace_edit:%s" % name, "%s called again with the same array object after the caller edited it in "
                                "place differs from the call on a fresh copy of the edited input; original graph=%s" % (name, A.tolist()))
            lab.append("edited_in_place")
    return lab


FN_NAMES = None


@st.composite
def sweep_case(draw):
    global FN_NAMES
    if FN_NAMES is None:
        FN_NAMES = sorted(_sweep_calls())
    kind = draw(st.sampled_from(["pdag", "dag", "weighted", "chain"]))
    if kind == "chain":
        p = draw(st.integers(2, 6))
        case = {"A": [[int(j == i + 1) for j in range(p)] for i in range(p)], "dtype": draw(st.sampled_from(["int", "float"]))}
    elif kind == "pdag":
        case = {"A": draw(S.pdag(1, 6, max_undirected=6, weights=(3, 3, 2))), "dtype": draw(st.sampled_from(["int", "float"]))}
    elif kind == "dag":
        case = {"A": draw(S.dag_pattern(1, 6)), "dtype": draw(st.sampled_from(["int", "float"]))}
    else:
        W, cls = draw(S.weighted_dag(1, 6))
        case = {"W": W}
    case.update({"sub": "sweep", "fn": draw(st.sampled_from(FN_NAMES)), "i": draw(st.integers(0, 5)), "j": draw(st.integers(0, 5)),
                 "S": draw(st.lists(st.integers(0, 5), max_size=4, unique=True)), "seed": draw(st.integers(0, 99))})
    return case


# ------------------------------------------------------------------------ strategies for histories

def _init_lganm():
    return S.weighted_dag(3, 6, classes=("unit", "smallint", "dyadic", "cancelling")).flatmap(
        lambda wc: st.fixed_dictionaries({
            "op": st.just("init"), "W": st.just(wc[0]),
            "means": st.lists(st.integers(-3, 3), min_size=len(wc[0]), max_size=len(wc[0])),
            "variances": st.lists(st.integers(1, 4), min_size=len(wc[0]), max_size=len(wc[0])),
            "dtypes": st.lists(st.sampled_from(["int", "float"]), min_size=3, max_size=3)}).map(
                lambda d: d if all(Fraction(x).denominator == 1 for r in d["W"] for x in r) else {**d, "dtypes": ["float"] + d["dtypes"][1:]}))


def _steps_lganm():
    return {"sample": st.fixed_dictionaries({"op": st.just("sample"), "iv": st.integers(0, len(IVS) - 1), "pop": st.booleans(),
                                             "n": st.sampled_from([1, 4]), "seed": st.integers(0, 5), "pass_empty": st.booleans()}),
            "mutate": st.sampled_from([{"op": "mutate_caller"}, {"op": "scribble"}])}


def _init_normal():
    return st.integers(2, 5).flatmap(lambda p: st.fixed_dictionaries({
        "op": st.just("init"), "B": st.lists(st.lists(st.integers(-3, 3), min_size=2, max_size=2), min_size=p, max_size=p),
        "d": st.lists(st.integers(1, 4), min_size=p, max_size=p), "mean": st.lists(st.integers(-5, 5), min_size=p, max_size=p),
        "int": st.booleans()}))


def _steps_normal():
    q = st.fixed_dictionaries({"op": st.sampled_from(["marginal", "conditional", "regress", "mse", "sample", "cond_nothing"]),
                               "idx": st.lists(st.integers(0, 4), min_size=1, max_size=4), "n": st.sampled_from([1, 3]), "seed": st.integers(0, 5),
                               "as_array": st.booleans(), "negative": st.booleans(), "identity": st.booleans()})
    return {"query": q, "mutate": st.sampled_from([{"op": "mutate_caller"}, {"op": "scribble"}])}


def _init_anm():
    return S.weighted_dag(2, 5, classes=("unit", "smallint", "cancelling")).flatmap(
        lambda wc: st.fixed_dictionaries({"op": st.just("init"), "W": st.just(wc[0]), "int": st.booleans(),
                                          "dtype": st.sampled_from([None, None, None, "bool", "uint8", "float32", "int32"])}))


def _steps_anm():
    return {"sample": st.fixed_dictionaries({"op": st.just("sample"), "iv": st.integers(0, 5), "n": st.sampled_from([1, 5]), "seed": st.integers(0, 5)}),
            "mutate": st.sampled_from([{"op": "mutate_caller"}, {"op": "scribble"}])}


MACHINES = {"hist_lganm": (_init_lganm, _steps_lganm), "hist_normal": (_init_normal, _steps_normal), "hist_anm": (_init_anm, _steps_anm)}


def plan(tier, seed):
    jobs = []
    n = scaled(1000 if tier == "quick" else 10000)
    shards = 5 if tier == "quick" else 21
    for sub in MACHINES:
        for k in range(shards):
            jobs.append({"sub": sub, "seed": seed, "shard": k, "n": max(1, n // shards), "steps": 25 if tier == "quick" else 40, "cost": 10})
    ns = scaled(16000 if tier == "quick" else 240000)
    sh = 16 if tier == "quick" else 48
    for k in range(sh):
        jobs.append({"sub": "sweep", "seed": seed, "shard": k, "salt": 2, "n": max(1, ns // sh), "cost": 8})
    return jobs


def run(job):
    acc = Acc(job["sub"])
    if job["sub"] == "sweep":
        run_property(acc, sweep_case(), check, lambda c, l: "array_from_array" in l, job["n"], job_seed(job))
    else:
        init, steps = MACHINES[job["sub"]]
        factory = history_machine_factory(RUNNERS[job["sub"]], steps(), _finish, init_strategy=init())
        run_machine(acc, factory, job["n"], job["steps"], job_seed(job))
    acc.exhaustive = False
    return acc


def selfcheck():
    G.selfcheck()


LEVEL_TEXT = ("Exploration over call histories and over the public API surface: rule-based state machines drive one LGANM / "
              "NormalDistribution / ANM through generated sequences of intervened sampling, queries, caller-side mutation of the "
              "original arrays and overwriting of every returned array, checking after every step the attribute snapshot, the "
              "observational law, equality with a fresh model (history independence), preservation of intervention dicts and "
              "absence of aliasing; a sweep calls ~90 public functions on generated caller-owned graphs / sets / lists and compares "
              "deep snapshots of every argument before and after, and after writing into the results.")
LEVEL_NOTE = "Trusted: byte-level snapshots (dtype, shape, bytes) and numpy.shares_memory. Functions stored in an ANM are treated as atomic."
TECHNIQUE = "Hypothesis rule-based state machines (history invariants) + API-surface sweep with before/after deep snapshots"
DESIGN_REF = "DESIGN.md section 4, C14"
