"""C11 - random DAG generators return valid DAGs with a valid, random ordering."""
import math

import numpy as np
from hypothesis import strategies as st

from harness import graphs as G
from harness import stats
from harness.core import Acc, Violation, lib, must
from harness.hyp import job_seed, run_property, scaled

PROP = "C11"
RULE = ("Grid x seeds: p in {2..8, 20, 60} (dag_full also p = 0, 1), k on the half-integer grid 0..p-1 (incl. non-integers and "
        "the extremes), weight ranges {(1,1), (.5,2), (-2,-.5), (-1,1), (0,0), (-3,-3)}, return_ordering both ways, S seeds per "
        "configuration derived from VERIF_SEED; plus Hypothesis-drawn (p<=60, k, range, seed) tuples. Per call: shape (p,p), "
        "zero diagonal, acyclic by the checker's DFS, non-zero entries inside [w_min, w_max], ordering a permutation with every "
        "edge forward; dag_full complete when 0 is outside the range; k = p-1 complete and k = 0 empty. Per configuration over "
        "the S seeds: total edge count against the exact Binomial(S*p(p-1)/2, k/(p-1)) tails (1e-12), per-pair adjacency "
        "frequency and per-pair direction frequency z-scores (<= 8), dispersion of the per-seed edge count, every node on "
        "every position of the ordering (p <= 6) and an ordering different from 0..p-1. Non-trivial = p >= 3, 0 < k < p-1, "
        "ordering requested, at least one edge. Also: dag_avg_deg(3000, k=0) over 24+ seeds, k = p-1 at p = 1500, dag_full on 2049 and 2600 nodes (numpy-level validity oracle).")
ASSUMPTIONS = [
    "W with and without return_ordering need not be equal; -0.0 == 0",
    "statistical bounds: exact binomial tail 1e-12, |z| <= 8 (per-statistic false-alarm probability < 1e-12 for a correct generator)",
    "a weight drawn as exactly 0.0 inside a range containing 0 has probability 0 and is treated as 'no edge'",
    "sizes / counts / integer bounds are generated as Python ints or signed numpy integers of 32 bits or more (DESIGN.md 8.7b)",
]
RANGES = [(1, 1), (0.5, 2), (-2, -0.5), (-1, 1), (0, 0), (-3, -3),
          (1e-320, 1e-310), (-3e17, -1e17), (1e-300, 2e-300)]       # subnormal, huge and tiny weights are weights too
PTYPES = [None, "int32", "int64", None, "intp", None, "int64"]     # p as a numpy integer (32 bits or more, signed)


def _valid(W, p, w_min, w_max, what):
    W = np.asarray(W)
    if W.shape != (p, p):
        raise Violation("bad_shape", "%s returned shape %r, expected (%d,%d)" % (what, W.shape, p, p))
    if p and (np.diag(W) != 0).any():
        raise Violation("selfloop", "%s: non-zero diagonal" % what)
    nz = W[W != 0]
    if nz.size and (nz.min() < w_min or nz.max() > w_max):
        raise Violation("weight_out_of_range", "%s: weights in [%r, %r], requested [%r, %r]" % (what, float(nz.min()), float(nz.max()), w_min, w_max))
    rows = G.rows_from_matrix(W)
    if G.has_cycle_dfs(rows):
        raise Violation("not_a_dag", "%s returned a cyclic graph %s" % (what, (W != 0).astype(int).tolist()))
    return rows


def _valid_order(order, rows, p, what):
    order = np.asarray(order)
    if order.shape != (p,) or sorted(int(x) for x in order) != list(range(p)):
        raise Violation("ordering_not_permutation", "%s: ordering %r" % (what, order.tolist()))
    pos = {int(v): k for k, v in enumerate(order)}
    for i in range(p):
        for j in G.bits(rows[i]):
            if pos[i] >= pos[j]:
                raise Violation("ordering_not_topological", "%s: edge %d->%d but ordering %s" % (what, i, j, order.tolist()))
    return pos


def _call(gen, case, seed, with_order):
    import sempler.generators as gens
    from props.gcommon import npint, typed_int
    # p / k as Python or numpy numbers, arguments by keyword or by position
    p = typed_int(case["p"], case["ptype"]) if case.get("ptype") else npint(case["p"], seed)
    w_min, w_max = case["w"]
    style = seed % 5
    if gen == "avg":
        k = case["k"]
        if seed % 4 == 1:
            k = np.float64(k)
        elif seed % 4 == 2 and float(k).is_integer():
            k = npint(int(k), seed // 4)
        kw = dict(w_min=w_min, w_max=w_max, random_state=seed)
        if with_order:
            kw["return_ordering"] = True
        if case.get("debug") and seed % 3 == 0:        # tracing flag: same contract with it (prints are discarded)
            import contextlib
            import io
            with contextlib.redirect_stdout(io.StringIO()):
                o = lib(gens.dag_avg_deg, p, k, debug=True, **kw)
            if o.ok or not (isinstance(o.exc, TypeError) and "debug" in str(o.exc)):
                return o
        if style == 3:
            return lib(gens.dag_avg_deg, p, k, w_min, w_max, bool(with_order), seed)
        if style == 4:
            return lib(gens.dag_avg_deg, p=p, k=k, **kw)
        return lib(gens.dag_avg_deg, p, k, **kw)
    kw = dict(w_min=w_min, w_max=w_max, random_state=seed)
    if with_order:
        kw["return_ordering"] = True
    if style == 3:
        return lib(gens.dag_full, p, w_min, w_max, bool(with_order), seed)
    if style == 4:
        return lib(gens.dag_full, p=p, **kw)
    return lib(gens.dag_full, p, **kw)


def check_large(case):
    """Validity of one very large graph with numpy-level oracles (the bitset oracle is for small graphs)."""
    from props.gcommon import has_cycle_big
    gen, p, s = case["gen"], case["p"], case["seeds"][0]
    w_min, w_max = case["w"]
    res = must(_call(gen, case, s, True), "large %s p=%d seed=%d" % (gen, p, s))
    W, order = res
    W = np.asarray(W)
    what = "dag_%s(p=%d%s, w=[%r,%r], random_state=%d)" % ("avg_deg" if gen == "avg" else "full", p, "" if gen == "full" else ", k=%r" % case["k"], w_min, w_max, s)
    if W.shape != (p, p):
        raise Violation("bad_shape", "%s returned shape %r" % (what, W.shape))
    nz = W != 0
    ne = int(nz.sum())
    if np.diag(nz).any():
        raise Violation("selfloop", "%s: non-zero diagonal" % what)
    if ne and (W[nz].min() < w_min or W[nz].max() > w_max):
        raise Violation("weight_out_of_range", "%s: weights outside the requested range" % what)
    if (nz & nz.T).any():
        raise Violation("not_a_dag", "%s contains a two-cycle" % what)
    order = np.asarray(order)
    if order.shape != (p,) or not np.array_equal(np.sort(order), np.arange(p)):
        raise Violation("ordering_not_permutation", "%s: ordering is not a permutation" % what)
    pos = np.empty(p, dtype=np.int64)
    pos[order] = np.arange(p)
    fro, to = np.nonzero(nz)
    if not (pos[fro] < pos[to]).all():
        raise Violation("ordering_not_topological", "%s: an edge points backwards in the returned ordering (hence also: not shown acyclic)" % what)
    m = p * (p - 1) // 2
    if gen == "full" and not (w_min <= 0 <= w_max) and ne != m:
        raise Violation("not_complete", "%s has %d of %d edges" % (what, ne, m))
    if gen == "avg" and case["k"] == 0 and ne != 0:
        raise Violation("not_empty", "%s has %d edges for k=0" % (what, ne))
    if gen == "avg" and case["k"] == p - 1 and not (w_min <= 0 <= w_max) and ne != m:
        raise Violation("not_complete", "%s has %d of %d edges for k=p-1" % (what, ne, m))
    return ["large", "gen_" + gen, "nt"]


def check(case):
    """One configuration x S seeds (sub 'grid'), or a single call (sub 'single')."""
    if case["sub"] == "large":
        return check_large(case)
    gen, p = case["gen"], case["p"]
    w_min, w_max = case["w"]
    zero_in = w_min <= 0 <= w_max
    m = p * (p - 1) // 2
    q = 1.0 if gen == "full" else (case["k"] / (p - 1))
    seeds = case["seeds"]
    S = len(seeds)
    lab = ["gen_" + gen, "range_%s_%s" % (w_min, w_max)]
    counts = []
    pair_adj = np.zeros((p, p))
    pair_dir = np.zeros((p, p))
    position = np.zeros((p, p), dtype=int)
    identity_orders = 0
    special = sorted(set([0, 1, 2, p - 3, p - 2, p - 1])) if p >= 6 else list(range(p))
    pos_adj = {(a, b): 0 for a in special for b in special if a < b}
    ctx0 = "dag_%s(p=%d%s, w=[%r,%r])" % ("avg_deg" if gen == "avg" else "full", p, "" if gen == "full" else ", k=%r" % case["k"], w_min, w_max)
    for s in seeds:
        with_order = case["ordering"] == "yes" or (case["ordering"] == "mixed" and s % 2 == 0)
        res = must(_call(gen, case, s, with_order), "%s seed %d" % (ctx0, s))
        what = "%s, random_state=%d" % (ctx0, s)
        if with_order:
            if not (isinstance(res, (tuple, list)) and len(res) == 2):
                raise Violation("no_ordering_returned", "%s with return_ordering=True returned %s" % (what, type(res).__name__))
            W, order = res
        else:
            if isinstance(res, tuple):
                raise Violation("unexpected_tuple", "%s without return_ordering returned a tuple" % what)
            W, order = res, None
        rows = _valid(W, p, w_min, w_max, what)
        if order is not None:
            pos = _valid_order(order, rows, p, what)
            for node, k in pos.items():
                position[node, k] += 1
            if [int(x) for x in order] == list(range(p)):
                identity_orders += 1
            ol = [int(x) for x in order]
            for (a, b) in pos_adj:                       # adjacency of the nodes at positions a < b of the returned ordering
                if rows[ol[a]] >> ol[b] & 1:
                    pos_adj[(a, b)] += 1
        ne = sum(bin(r).count("1") for r in rows)
        counts.append(ne)
        for i in range(p):
            for j in G.bits(rows[i]):
                pair_adj[min(i, j), max(i, j)] += 1
                if i < j:
                    pair_dir[i, j] += 1
        if not zero_in:
            if q >= 1.0 and ne != m:
                raise Violation("not_complete", "%s has %d of %d edges" % (what, ne, m))
            if q <= 0.0 and ne != 0:
                raise Violation("not_empty", "%s has %d edges for k=0" % (what, ne))
    if w_min == w_max == 0:
        if any(counts):
            raise Violation("weight_out_of_range", "%s: non-zero weights for the range [0,0]" % ctx0)
        return lab + ["zero_range"]
    if zero_in or S < 50:
        return lab + (["single"] if S < 50 else ["zero_in_range"])
    # ---- law over the seeds
    total = int(sum(counts))
    if 0.0 < q < 1.0:
        lo, hi = stats.binom_tails(total, S * m, q)
        if lo < stats.BINOM_TAIL or hi < stats.BINOM_TAIL:
            raise Violation("edge_count_law", "%s: %d edges over %d seeds, expected Binomial(%d, %.4f) mean %.1f (tails %.2g / %.2g)"
                            % (ctx0, total, S, S * m, q, S * m * q, lo, hi))
        sd = math.sqrt(S * q * (1 - q))
        for i in range(p):
            for j in range(i + 1, p):
                z = (pair_adj[i, j] - S * q) / sd
                if abs(z) > stats.Z_MAX:
                    raise Violation("pair_frequency", "%s: pair {%d,%d} adjacent in %d of %d graphs, expected %.1f (z=%.1f)"
                                    % (ctx0, i, j, pair_adj[i, j], S, S * q, z))
        # dispersion of the per-seed count (independence of the edges)
        if m >= 3:
            var = m * q * (1 - q)
            s2 = float(np.var(counts, ddof=1))
            exk = (1 - 6 * q * (1 - q)) / var
            z = (s2 / var - 1) / math.sqrt(2.0 / (S - 1) + max(exk, 0) / S + 1e-12)
            if abs(z) > stats.Z_MAX:
                raise Violation("edge_count_dispersion", "%s: variance of the per-graph edge count %.3f, expected %.3f (z=%.1f)" % (ctx0, s2, var, z))
        # ... and in ordering space: the nodes at any two positions of the returned order are adjacent with probability q
        n_ord = int(position[0].sum()) if p else 0
        if n_ord >= 50:
            for (a, b), cnt in pos_adj.items():
                lo, hi = stats.binom_tails(cnt, n_ord, q)
                if min(lo, hi) < stats.BINOM_TAIL / max(1, len(pos_adj)):
                    raise Violation("position_pair_frequency", "%s: the nodes at positions %d and %d of the ordering are adjacent in %d of %d "
                                    "graphs, expected %.1f (tails %.2g / %.2g)" % (ctx0, a, b, cnt, n_ord, n_ord * q, lo, hi))
            lab.append("position_pairs")
        lab.append("law")
    # direction of each pair is a fair coin (random relabelling)
    if p >= 2 and q > 0:
        for i in range(p):
            for j in range(i + 1, p):
                n_ij = pair_adj[i, j]
                if n_ij >= 30:
                    z = (pair_dir[i, j] - n_ij / 2.0) / math.sqrt(n_ij / 4.0)
                    if abs(z) > stats.Z_MAX:
                        raise Violation("direction_not_random", "%s: pair {%d,%d} oriented %d->%d in %d of %d graphs (z=%.1f)"
                                        % (ctx0, i, j, i, j, pair_dir[i, j], n_ij, z))
    n_orders = int(position[0].sum()) if p else 0
    if p >= 2 and n_orders >= 50:
        if identity_orders == n_orders:
            raise Violation("ordering_not_random", "%s: the ordering is 0..p-1 for all %d seeds" % (ctx0, n_orders))
        if p <= 6 and n_orders >= 40 * p:
            if (position == 0).any():
                node, k = [int(v[0]) for v in np.where(position == 0)]
                raise Violation("ordering_not_random", "%s: node %d never takes position %d over %d seeds" % (ctx0, node, k, n_orders))
            lab.append("positions_covered")
    if p >= 3 and 0 < q < 1 and case["ordering"] != "no" and total > 0:
        lab.append("nt")
    if p >= 3 and gen == "full" and case["ordering"] != "no":
        lab.append("nt")
    return lab


def _nontrivial(case, labels):
    return "nt" in labels


def _grid(tier, seed):
    cfgs = []
    S = 600 if tier == "quick" else 2000
    idx = 0
    for p in [2, 3, 4, 5, 6, 7, 8, 20, 60, 150, 250]:
        ks = [h / 2.0 for h in range(0, 2 * (p - 1) + 1)] if p <= 8 else [0, 0.5, 2, 3.7, p / 2.0, p - 1] if p <= 60 else [p * 0.08, 3.0]
        # p = 150 / 250 with k/(p-1) below 0.1: large *sparse* graphs (where an implementation may sample edge slots directly)
        for ki, k in enumerate(ks):
            ranges = (RANGES if tier == "thorough" else [RANGES[(ki + p) % 4], RANGES[4 + (ki % 2)]] if ki % 3 == 0
                      else [RANGES[(ki + p) % 4], RANGES[6 + (ki + p) % 3]] if ki % 3 == 1 else [RANGES[(ki + p) % 4]])
            for w in ranges:
                idx += 1
                Sp = S if p <= 8 else max(50, S // 4) if p == 20 else 50
                cfgs.append({"sub": "grid", "gen": "avg", "p": p, "k": k, "w": list(w),
                             "ordering": ["yes", "mixed", "yes", "no"][idx % 4], "debug": idx % 5 == 0,
                             "ptype": PTYPES[idx % 7],
                             "seeds": [seed * 1000003 + idx * 5003 + s for s in range(Sp)]})
    # many seeds at a moderate size and low density (edge slots sampled directly?): position-pair frequencies need ~400 graphs
    for (p, k) in [(64, 5.0), (100, 6.0)]:
        idx += 1
        cfgs.append({"sub": "grid", "gen": "avg", "p": p, "k": k, "w": [0.5, 2], "ordering": "yes", "debug": False, "ptype": None,
                     "seeds": [seed * 1000003 + idx * 5003 + s for s in range(400 if tier == "quick" else 1200)]})
    for p in [0, 1, 2, 3, 4, 5, 6, 8, 20]:
        for wi, w in enumerate(RANGES):
            idx += 1
            Sp = (240 if tier == "quick" else 1000) if p >= 2 else 6
            cfgs.append({"sub": "grid", "gen": "full", "p": p, "k": None, "w": list(w), "ordering": ["yes", "mixed", "yes"][idx % 3],
                         "ptype": PTYPES[idx % 7],
                         "seeds": [seed * 1000003 + idx * 5003 + s for s in range(Sp if p <= 8 else 50)]})
    return cfgs


@st.composite
def single_case(draw):
    gen = draw(st.sampled_from(["avg", "avg", "full"]))
    p = draw(st.integers(2 if gen == "avg" else 0, 60))
    lo = draw(st.integers(-40, 40)) / 8.0
    wd = draw(st.sampled_from([0, 0.125, 1, 2.5, 10]))
    case = {"sub": "single", "gen": gen, "p": p, "w": [lo, lo + wd], "ordering": draw(st.sampled_from(["yes", "yes", "no"])),
            "seeds": [draw(st.sampled_from([0, 1, 42]) | st.integers(0, 2 ** 32 - 1))]}
    case["k"] = None if gen == "full" else draw(st.sampled_from([0.0, float(p - 1), 1.0]) | st.floats(0, p - 1, allow_nan=False))
    if gen == "avg":
        case["k"] = min(case["k"], float(p - 1))
    return case


def plan(tier, seed):
    jobs = []
    cfgs = _grid(tier, seed)
    nshards = 32 if tier == "quick" else 96
    for k in range(nshards):
        jobs.append({"sub": "grid", "seed": seed, "shard": k, "nshards": nshards, "tier": tier, "cost": 10})
    # very large graphs: k = 0 must stay empty, k = p-1 complete (any rounding of the edge probability shows here), and
    # dag_full beyond a few thousand nodes (block-wise implementations)
    big = [("avg", 3000, 0.0)] * (24 if tier == "quick" else 96) + [("avg", 1500, 1499.0), ("full", 2049, None), ("full", 2600, None), ("avg", 2100, 3.0),
                                                                            ("avg", 4200, 2.0), ("full", 4100, None)]
    for n, (gen, p, k) in enumerate(big):
        jobs.append({"sub": "large", "seed": seed, "gen": gen, "p": p, "k": k, "index": n, "cost": 12})
    n = scaled(6400 if tier == "quick" else 80000)
    shards = 8 if tier == "quick" else 32
    for k in range(shards):
        jobs.append({"sub": "single", "seed": seed, "shard": k, "n": max(1, n // shards), "cost": 4})
    return jobs


def run(job):
    acc = Acc(job["sub"])
    if job["sub"] == "large":
        case = {"sub": "large", "gen": job["gen"], "p": job["p"], "k": job["k"], "w": [[1, 1], [-2, -0.5], [0.5, 2]][job["index"] % 3],
                "ordering": "yes", "seeds": [job["seed"] * 7919 + job["index"]]}
        try:
            acc.record(case, check(case), True, by_construction=True, sample=(job["index"] in (0, 25)))
        except Violation as v:
            acc.record(case, [], False)
            acc.violation(case, v)
        acc.exhaustive = False
        return acc
    if job["sub"] == "grid":
        cfgs = _grid(job["tier"], job["seed"])
        calls = 0
        for n, case in enumerate(cfgs):
            if n % job["nshards"] != job["shard"]:
                continue
            ns = len(case["seeds"])
            try:
                lab = check(case)
                nt = _nontrivial(case, lab)
                acc.record(case, lab, nt, by_construction=True, sample=False)
                # every (configuration, seed) pair is one generator call = one evaluation, distinct by construction
                acc.evaluations += ns - 1
                if nt:
                    acc.nt_exhaustive += ns - 1
                if nt and len(acc.samples) < 2:
                    acc.samples.append({**{k: v for k, v in case.items() if k != "seeds"}, "seeds": "%d seeds from %d" % (ns, case["seeds"][0])})
            except Violation as v:
                acc.record(case, [], False)
                acc.violation(case, v)
            calls += ns
        acc.extra["generator_calls"] = calls
        acc.exhaustive = False
    else:
        run_property(acc, single_case(), check, lambda c, l: c["p"] >= 3, job["n"], job_seed(job))
        acc.exhaustive = False
    return acc


LEVEL_TEXT = ("Exploration with statistical oracles: a grid of (p, k, weight range, return_ordering) configurations, each run over "
              "hundreds of seeds derived from VERIF_SEED, checks every returned graph with a validity predicate (shape, zero "
              "diagonal, acyclicity by an independent DFS, weight range, ordering is a topological permutation) and the family of "
              "graphs against the documented law (exact binomial tails for the edge count, per-pair inclusion and direction "
              "frequencies, dispersion, every node on every position of the ordering).")
LEVEL_NOTE = ("Trusted: DFS oracle, exact binomial tails and z-bounds in /verif/harness; false-alarm probability < 1e-12 per "
              "statistic. Edge-probability errors below ~3 sigma of the pooled count are not detectable.")
TECHNIQUE = "seed-sweep generation + validity predicate + exact-binomial / z-score statistical oracle"
DESIGN_REF = "DESIGN.md section 4, C11"
