"""C13 - seeded calls are reproducible regardless of history (stateful, model-based)."""
import json

import numpy as np
from hypothesis import strategies as st
from hypothesis.stateful import RuleBasedStateMachine, invariant, precondition, rule

from harness.core import Acc, Violation, canon, lib, must
from harness.hyp import job_seed, run_machine, scaled

PROP = "C13"
RULE = ("Hypothesis rule-based state machine. Seeded rules (arguments and seed drawn, seed 0 over-weighted): LGANM construction with "
        "(lo,hi) ranges, LGANM.sample (incl. point-mass interventions => singular covariance), NormalDistribution.sample (incl. "
        "singular covariances), ANM.sample with the library's noise factories and do/shift/noise interventions, dag_avg_deg, "
        "dag_full, intervention_targets, split_data, add_edges, remove_edges. Perturbing rules: unseeded calls of the same APIs, "
        "np.random.seed(s), np.random.random(k), draws from a fresh default_rng. Oracle: a dict from the canonical (api, "
        "arguments, seed) to the first result; every repeat of a key - immediately or after arbitrary perturbing rules - must be "
        "bit-identical, and an invariant re-executes the first remembered key after every step; two consecutive unseeded "
        "sampling calls must differ. Non-trivial = a history in which a key is repeated after at least one perturbing rule "
        "(counted separately for seed 0). Distinct = distinct history. Also: every ordered pair of intervention settings per LGANM fixture (880 two-call histories), seeds as numpy integers and passed positionally (all representations of a seed share one model key), re-execution of all remembered calls after every step except directly after an unseeded API call.")
ASSUMPTIONS = [
    "results with and without a seed are not related; only same-arguments-same-seed is compared",
    "whether different seeds give different results is not demanded",
    "every history starts from np.random.seed(12345) so that a failing history replays exactly",
]

SEEDS = st.sampled_from([0, 0, 0, 1, 42, 2 ** 32 - 1]) | st.integers(0, 2 ** 32 - 1)


def _bytes(x):
    if isinstance(x, tuple):
        return b"|".join(_bytes(v) for v in x)
    if isinstance(x, list):
        return b"[" + b",".join(_bytes(v) for v in x) + b"]"
    a = np.asarray(x)
    return str(a.dtype).encode() + str(a.shape).encode() + np.ascontiguousarray(a).tobytes()


class Runner:
    """Executes a history step by step against the library and the model dict."""

    def __init__(self):
        import sempler
        import sempler.noise as noise
        np.random.seed(12345)
        self.sempler = sempler
        self.noise = noise
        self.model = {}
        self.how = {}
        self.first_key = None
        self.perturb_count = 0
        self.seen_at = {}
        self.repeat_after_perturb = 0
        self.repeat_seed0 = 0
        self.repeats = 0
        W = [np.array([[0, 1.5, -1], [0, 0, 2], [0, 0, 0]]), np.array([[0, 0], [0, 0]]),
             np.array([[0, 1, 1, 0], [0, 0, 0, -1], [0, 0, 0, 1], [0, 0, 0, 0]]), np.array([[0.0]])]
        self.W = W
        self.lganm = [sempler.LGANM(w, np.arange(len(w), dtype=float), np.ones(len(w)) * (1 + 0.5 * k)) for k, w in enumerate(W)]
        # fixtures 1 and 2 are built from (lo, hi) ranges with a construction seed (0 and 7): sampling them without a
        # random_state must still be unseeded
        self.lganm[1] = sempler.LGANM(W[1], (0, 1), (1, 2), random_state=0)
        self.lganm[2] = sempler.LGANM(W[2], (-1, 1), (0.5, 1.5), random_state=7)
        self.lganm_iv = [dict(), dict(do_interventions={0: (1.0, 2.0)}), dict(do_interventions={1: 3}),
                         dict(shift_interventions={0: (1, 1)}, noise_interventions={1: (0, 0.5)}),
                         dict(noise_interventions={0: 2.5}), dict(do_interventions={0: 1}, shift_interventions={0: (2, 2)}),
                         # the same parameters on the same (non-source) target under different intervention types
                         dict(noise_interventions={2: (1.0, 2.0)}), dict(do_interventions={2: (1.0, 2.0)}),
                         dict(shift_interventions={2: (1.0, 2.0)}), dict(do_interventions={1: (1.0, 1.5)}), dict(noise_interventions={1: (1.0, 1.5)})]
        B = np.array([[1.0, 0], [2, 1], [0, 3]])
        self.normal = [sempler.NormalDistribution(np.zeros(2), np.array([[2.0, 0.5], [0.5, 1]])),
                       sempler.NormalDistribution(np.array([1.0, -1, 0]), B @ B.T),               # singular (rank 2)
                       sempler.NormalDistribution(np.array([5.0]), np.array([[0.0]])),
                       sempler.NormalDistribution(np.arange(4.0), np.diag([1.0, 0, 2, 0]))]
        A = np.array([[0, 1, 1], [0, 0, 1], [0, 0, 0]])
        self.anm = [sempler.ANM(A, [None, lambda x: 2 * x, lambda x: np.sin(x[:, 0]) + x[:, 1]],
                                [noise.normal(0, 1), noise.uniform(-1, 1), noise.laplace(0, 2)]),
                    sempler.ANM(np.zeros((2, 2)), [None, None], [noise.uniform(), noise.normal(3, 0.25)]),
                    sempler.ANM(A, [None, np.tanh, lambda x: x @ np.array([1.0, -1.0])], [noise.normal(1, 4)] * 3)]
        self.shared_iv = {"u": noise.uniform(1, 2), "n": noise.normal(-1, 0.5), "l": noise.laplace(0, 1)}
        self.dags = [np.array([[0, 1, 0, 0], [0, 0, 1, 0], [0, 0, 0, 0], [0, 0, 0, 0]]), np.zeros((5, 5)),
                     np.array([[0, 2.5, -1], [0, 0, 0], [0, 0, 0]])]
        self.data = [[np.arange(24.0).reshape(12, 2), np.arange(15.0).reshape(5, 3)], [np.arange(7.0).reshape(7, 1)]]
        self.last_unseeded = None

    # ------------------------------------------------------------------ one API call
    def _anm_iv(self, code):
        n = self.noise
        fresh = {"u": n.uniform(1, 2), "n": n.normal(-1, 0.5), "l": n.laplace(0, 1)}
        table = {0: {}, 1: dict(do_interventions={0: self.shared_iv["u"]}), 2: dict(shift_interventions={1: fresh["n"]}),
                 3: dict(noise_interventions={1: fresh["l"]}, do_interventions={0: fresh["n"]}),
                 4: dict(do_interventions={1: self.shared_iv["n"]}, shift_interventions={1: self.shared_iv["l"]}),
                 5: dict(noise_interventions={0: self.shared_iv["l"]})}
        return table[code]

    def call(self, step, seed):
        s = self.sempler
        import sempler.generators as gens
        import sempler.utils as utils
        op = step["op"]
        if seed is not None and step.get("seed_type") == "np_int64":
            seed = np.int64(seed)            # a seed is a seed, whether a Python int or a numpy integer (e.g. from np.arange)
        elif seed is not None and step.get("seed_type") == "np_uint32":
            seed = np.uint32(seed)
        kw = {} if seed is None else {"random_state": seed}
        if op == "normal_sample" and seed is not None and step.get("positional"):
            return self.normal[step["fx"]].sample(step["n"], seed)          # documented signature: sample(n, random_state=None)
        if op == "lganm_new":
            m = s.LGANM(self.W[step["fx"]], tuple(step["means"]), tuple(step["variances"]), **kw)
            return (m.means, m.variances)
        if op == "lganm_sample":
            fx = step["fx"]
            iv = self.lganm_iv[step["iv"]]
            p = len(self.W[fx])
            iv = {k: {t: v for t, v in d.items() if t < p} for k, d in iv.items()}
            return self.lganm[fx].sample(step["n"], **iv, **kw)
        if op == "normal_sample":
            return self.normal[step["fx"]].sample(step["n"], **kw)
        if op == "anm_sample":
            fx = step["fx"]
            iv = self._anm_iv(step["iv"])
            p = self.anm[fx].p
            iv = {k: {t: v for t, v in d.items() if t < p} for k, d in iv.items()}
            return self.anm[fx].sample(step["n"], **iv, **kw)
        if op == "dag_avg_deg":
            r = gens.dag_avg_deg(step["p"], step["k"], step["w"][0], step["w"][1], return_ordering=step["ro"], **kw)
            return r if isinstance(r, tuple) else (r,)
        if op == "dag_full":
            r = gens.dag_full(step["p"], step["w"][0], step["w"][1], return_ordering=step["ro"], **kw)
            return r if isinstance(r, tuple) else (r,)
        if op == "targets":
            size = tuple(step["size"]) if isinstance(step["size"], list) else step["size"]
            r = gens.intervention_targets(step["p"], step["K"], size, replace=step["replace"], **kw)
            return [np.array(x, dtype=int) for x in r]
        if op == "split":
            r = utils.split_data(self.data[step["fx"]], step["ratios"], **kw)
            return [np.asarray(a) for fold in r for a in fold]
        if op == "add_edges":
            return utils.add_edges(self.dags[step["fx"]], step["k"], **kw)
        if op == "remove_edges":
            return utils.remove_edges(self.dags[step["fx"]], step["k"], **kw)
        raise ValueError(op)

    # ------------------------------------------------------------------ history steps
    def step(self, step):
        kind = step["kind"]
        if kind == "seeded":
            self._seeded(step)
        elif kind == "repeat":
            keys = sorted(self.model)
            if keys:
                self._seeded(json.loads(keys[step["index"] % len(keys)]))
        elif kind == "unseeded":
            self.perturb_count += 1
            o = lib(self.call, step, None)
            res = must(o, "unseeded %s" % step["op"])
            if step["op"] in ("lganm_sample", "normal_sample", "anm_sample") and step.get("twice"):
                res2 = must(lib(self.call, step, None), "unseeded %s (second)" % step["op"])
                a, b = np.asarray(res), np.asarray(res2)
                # the law is visibly non-degenerate if some column of the first sample varies
                nondeg = a.ndim == 2 and a.shape[0] >= 2 and float(np.ptp(a, axis=0).max()) > 0
                if nondeg and np.array_equal(a, b):
                    raise Violation("unseeded_degenerate", "two consecutive unseeded %s calls returned the same sample" % step["op"])
        elif kind == "np_seed":
            self.perturb_count += 1
            np.random.seed(step["seed"])
        elif kind == "np_draw":
            self.perturb_count += 1
            np.random.random(step["k"])
            np.random.normal(size=step["k"])
        elif kind == "rng_draw":
            self.perturb_count += 1
            np.random.default_rng(step["seed"]).uniform(size=step["k"])
        elif kind == "failed_call":
            self.perturb_count += 1
            self._failed_call(step)
        else:
            raise ValueError(kind)
        # no re-execution right after an unseeded API call: whatever that call left behind in a model object must be
        # what the NEXT step meets (re-executing remembered calls first would reset such state and hide its effect)
        if kind != "unseeded":
            self._invariant()

    def _failed_call(self, step):
        """A library call that fails (the caller passed something invalid, or one of its own callables raised), with a seed:
        an error is part of the history too, and must leave nothing behind in the model objects or the module."""
        import sempler.generators as gens
        import sempler.utils as utils
        seed, which, fx = step["seed"], step["which"], step["fx"]

        def boom(*a, **k):
            raise RuntimeError("the caller's callable raises")
        try:
            if which == "anm":
                m = self.anm[fx % len(self.anm)]
                kw = [dict(do_interventions={m.p - 1: boom}, noise_interventions={0: self.noise.normal(5, 1)}),
                      dict(do_interventions={0: self.noise.uniform(3, 4), m.p - 1: boom}),
                      dict(shift_interventions={0: self.noise.normal(1, 1)}, noise_interventions={m.p - 1: boom}),
                      # a pool that cannot serve n draws: the error comes from numpy, inside the library's loop
                      dict(do_interventions={m.p - 1: lambda n: np.random.choice(np.arange(20.0), n, replace=False)})][step["variant"] % 4]
                m.sample(50, random_state=seed, **kw)
            elif which == "lganm":
                m = self.lganm[fx % len(self.lganm)]
                kw = [dict(do_interventions={0: (1, 1), 10 ** 6: (0, 1)}), dict(shift_interventions={0: (1, 1), 10 ** 6: (0, 1)}),
                      dict(noise_interventions={0: (1, 1)}, do_interventions={m.p - 1: "bad"}), dict()][step["variant"] % 4]
                m.sample(-3 if step["variant"] % 4 == 3 else 5, random_state=seed, **kw)
            elif which == "normal":
                self.normal[fx % len(self.normal)].sample(-3, random_state=seed)
            elif which == "split":
                bad = [dict(ratios=[float("nan")]), dict(ratios=[0.5, 0.6])][step["variant"] % 2]
                utils.split_data(self.data[fx % len(self.data)] + ([None] if step["variant"] % 4 == 2 else []), random_state=seed,
                                 **(bad if step["variant"] % 4 != 2 else dict(ratios=[0.5, 0.5])))
            elif which == "gens":
                [lambda: gens.dag_full(6.5, random_state=seed), lambda: gens.dag_avg_deg(5.5, 2, random_state=seed),
                 lambda: gens.intervention_targets(5, 2, (1, 2, 3), random_state=seed),
                 lambda: gens.intervention_targets(5, 9, 3, replace=False, random_state=seed)][step["variant"] % 4]()
            else:
                utils.remove_edges(self.dags[fx % len(self.dags)], 10 ** 6, random_state=seed)
        except Exception:                # noqa: BLE001 - the failing call's own outcome is not judged
            pass

    def _seeded(self, step):
        # the way the seed is held / passed (Python int, numpy integer, positionally) is not part of the key: all of them
        # denote the same seeded call and must agree
        key = canon({k: v for k, v in step.items() if k not in ("seed_type", "positional")})
        self.how[key] = {k: step.get(k) for k in ("seed_type", "positional")}
        res = must(lib(self.call, step, step["seed"]), "seeded call %s" % key)
        b = _bytes(res)
        if key in self.model:
            self.repeats += 1
            if self.perturb_count > self.seen_at[key]:
                self.repeat_after_perturb += 1
                if step["seed"] == 0:
                    self.repeat_seed0 += 1
            if b != self.model[key]:
                raise Violation("not_reproducible:%s" % step["op"],
                                "%s with random_state=%r returned a different result than the first time (%d perturbing steps in between)"
                                % (step["op"], step["seed"], self.perturb_count - self.seen_at[key]))
        else:
            self.model[key] = b
            self.seen_at[key] = self.perturb_count
            if self.first_key is None:
                self.first_key = key

    def _invariant(self):
        """After every step re-execute the remembered seeded calls (all of them, up to 12, starting at a rotating
        position): any of them must still give its first result, whatever ran in between - including the other
        remembered calls on the same model object."""
        if not self.model:
            return
        keys = sorted(self.model)
        self.inv_count = getattr(self, "inv_count", 0) + 1
        start = self.inv_count % len(keys)
        for key in (keys[start:] + keys[:start])[:12]:
            step = dict(json.loads(key), **{k: v for k, v in self.how.get(key, {}).items() if v is not None})
            res = must(lib(self.call, step, step["seed"]), "invariant re-execution")
            if self.perturb_count > self.seen_at[key]:
                self.repeat_after_perturb += 1
                if step["seed"] == 0:
                    self.repeat_seed0 += 1
            if _bytes(res) != self.model[key]:
                raise Violation("not_reproducible:%s" % step["op"],
                                "re-executing the seeded call %s later in the history (%d perturbing steps after its first execution) gives "
                                "a different result" % (key, self.perturb_count - self.seen_at[key]))


def check(case):
    r = Runner()
    for step in case["history"]:
        r.step(step)
    lab = []
    if r.repeat_after_perturb:
        lab.append("repeat_after_perturbation")
    if r.repeat_seed0:
        lab.append("repeat_after_perturbation_seed0")
    return lab


# ------------------------------------------------------------------------ strategies for steps

W_RANGES = st.sampled_from([[1, 1], [0.5, 2], [-2, -0.5], [-1, 1]])


def api_step():
    return st.one_of(
        st.fixed_dictionaries({"op": st.just("lganm_new"), "fx": st.integers(0, 3), "means": st.sampled_from([[0, 1], [-2, 2], [1, 1]]),
                               "variances": st.sampled_from([[0, 1], [0.5, 2], [1, 1]])}),
        st.fixed_dictionaries({"op": st.just("lganm_sample"), "fx": st.sampled_from([0, 0, 1, 2, 2, 3]), "iv": st.integers(0, 10), "n": st.sampled_from([1, 3, 10, 10, 3, 70001] + [1, 3, 10] * 6 + [1048577])}),
        st.fixed_dictionaries({"op": st.just("normal_sample"), "fx": st.integers(0, 3), "n": st.sampled_from([1, 3, 10, 3, 10, 131072] + [1, 3, 10] * 6 + [1048577])}),
        st.fixed_dictionaries({"op": st.just("anm_sample"), "fx": st.integers(0, 2), "iv": st.integers(0, 5), "n": st.sampled_from([1, 3, 10, 3, 10, 1, 66000])}),
        st.fixed_dictionaries({"op": st.just("dag_avg_deg"), "p": st.integers(2, 7), "k": st.sampled_from([0, 1, 1.5, 2]), "w": W_RANGES,
                               "ro": st.booleans()}).map(lambda d: {**d, "k": min(d["k"], d["p"] - 1)}),
        st.fixed_dictionaries({"op": st.just("dag_full"), "p": st.integers(0, 6), "w": W_RANGES, "ro": st.booleans()}),
        st.fixed_dictionaries({"op": st.just("targets"), "p": st.integers(4, 10), "K": st.integers(0, 3), "size": st.sampled_from([1, 2, [0, 1], [1, 3]]),
                               "replace": st.booleans()}).map(lambda d: d if d["replace"] or (d["size"][1] if isinstance(d["size"], list) else d["size"]) * d["K"] <= d["p"] else {**d, "replace": True}),
        st.fixed_dictionaries({"op": st.just("split"), "fx": st.integers(0, 1), "ratios": st.sampled_from([[0.5, 0.5], [0.7, 0.2, 0.1], [1.0], [0.25, 0.75]])}),
        st.fixed_dictionaries({"op": st.just("add_edges"), "fx": st.integers(0, 2), "k": st.integers(0, 2)}).map(
            lambda d: {**d, "k": min(d["k"], 1)} if d["fx"] == 2 else d),
        st.fixed_dictionaries({"op": st.just("remove_edges"), "fx": st.just(0) | st.just(2), "k": st.integers(0, 2)}),
    )


def seeded_step():
    return st.tuples(api_step(), SEEDS, st.sampled_from(["int", "int", "int", "np_int64", "np_uint32"]), st.booleans()).map(
        lambda t: {**t[0], "kind": "seeded", "seed": t[1], "seed_type": t[2], "positional": t[3]})


def perturb_step():
    return st.one_of(
        st.tuples(api_step(), st.booleans()).map(lambda t: {**t[0], "kind": "unseeded", "twice": t[1]}),
        st.fixed_dictionaries({"kind": st.just("np_seed"), "seed": st.sampled_from([0, 1, 12345]) | st.integers(0, 2 ** 32 - 1)}),
        st.fixed_dictionaries({"kind": st.just("np_draw"), "k": st.integers(1, 9)}),
        st.fixed_dictionaries({"kind": st.just("rng_draw"), "seed": st.integers(0, 99), "k": st.integers(1, 5)}),
        st.fixed_dictionaries({"kind": st.just("failed_call"), "which": st.sampled_from(["anm", "anm", "lganm", "normal", "split", "gens", "edges"]),
                               "fx": st.integers(0, 3), "variant": st.integers(0, 3), "seed": SEEDS}),
    )


def machine_factory(on_finish, on_violation):
    class Machine(RuleBasedStateMachine):
        def __init__(self):
            super().__init__()
            self.runner = Runner()
            self.history = []

        def _do(self, step):
            self.history.append(step)
            try:
                self.runner.step(step)
            except Violation as v:
                if on_violation(self.history, v):
                    raise
                # a known / suppressed kind: forget the poisoned key so that the search continues behind it
                self.runner.model.clear()
                self.runner.first_key = None

        @rule(step=seeded_step())
        def seeded(self, step):
            self._do(step)

        @rule(step=perturb_step())
        def perturb(self, step):
            self._do(step)

        @precondition(lambda self: len(self.runner.model) > 0)
        @rule(index=st.integers(0, 50))
        def repeat(self, index):
            self._do({"kind": "repeat", "index": index})

        def teardown(self):
            r = self.runner
            lab = []
            if r.repeat_after_perturb:
                lab.append("repeat_after_perturbation")
            if r.repeat_seed0:
                lab.append("repeat_after_perturbation_seed0")
            ops = sorted({json.loads(k)["op"] for k in r.model})
            lab += ["op_" + o for o in ops]
            on_finish(list(self.history), lab, r.repeat_after_perturb > 0)
    return Machine


def pair_histories(seed):
    """Every ordered pair of intervention settings on every LGANM fixture, with and without an observational call
    in between, each call seeded (the invariant re-executes all remembered calls after every step)."""
    out = []
    for fx in range(4):
        for i in range(11):
            for j in range(11):
                if i == j:
                    continue
                for mid in (True, False):
                    h = [{"kind": "seeded", "op": "lganm_sample", "fx": fx, "iv": i, "n": 3, "seed": (seed + i) % 5,
                          "seed_type": ["int", "np_int64"][(i + j) % 2]}]
                    if mid:
                        h.append({"kind": "unseeded", "op": "lganm_sample", "fx": fx, "iv": 0, "n": 2, "twice": False})
                    h.append({"kind": "seeded", "op": "lganm_sample", "fx": fx, "iv": j, "n": 3, "seed": (seed + j) % 3})
                    h.append({"kind": "np_draw", "k": 2})
                    out.append(h)
    return out


def plan(tier, seed):
    jobs = [{"sub": "pair_histories", "seed": seed, "shard": k, "nshards": 8, "cost": 5} for k in range(8)]
    n = scaled(3200 if tier == "quick" else 32000)
    shards = 16 if tier == "quick" else 64
    for k in range(shards):
        jobs.append({"sub": "history", "seed": seed, "shard": k, "n": max(1, n // shards), "steps": 30 if tier == "quick" else 50, "cost": 10})
    return jobs


def run(job):
    acc = Acc(job["sub"])
    if job["sub"] == "pair_histories":
        for n, h in enumerate(pair_histories(job["seed"])):
            if n % job["nshards"] != job["shard"]:
                continue
            case = {"sub": "pair_histories", "history": h}
            try:
                lab = check(case)
                acc.record(case, lab + ["pair_history"], True, by_construction=True, sample=(n % 301 == 0))
            except Violation as v:
                acc.record(case, [], False)
                acc.violation(case, v)
        acc.exhaustive = True
        return acc
    run_machine(acc, machine_factory, job["n"], job["steps"], job_seed(job))
    acc.exhaustive = False
    return acc


LEVEL_TEXT = ("Exploration over call histories with a model-based state machine: hundreds (quick) / thousands (thorough) of generated "
              "interleavings of seeded calls of every API that accepts a random_state with perturbing calls (unseeded sampling, "
              "re-seeding and consuming numpy's global stream, fresh generators) are checked against a dictionary model of first "
              "results; any repeat must be bit-identical, seed 0 included. Histories shrink as one value and replay through a plain "
              "function.")
LEVEL_NOTE = "Trusted: byte-wise comparison of results; fixtures (models, graphs, data) are fixed per history, arguments and seeds are drawn."
TECHNIQUE = "Hypothesis rule-based state machine (model-based testing over call histories) with bit-identity oracle"
DESIGN_REF = "DESIGN.md section 4, C13"
