"""C10 - interventional equivalence classes and I-CPDAGs are exact."""
import numpy as np
from hypothesis import strategies as st

from harness import graphs as G
from harness import strategies as S
from harness.core import Acc, HarnessError, Violation, lib, must, must_raise
from harness.hyp import job_seed, run_property, scaled
from props.gcommon import DTYPE_NAMES, chain_variant, compare_sets, lib_debug, npints, pdag_codes, result_set, signed_copy, spoil, to_np

PROP = "C10"
RULE = ("imec(A, I) (shortcut and general path) and dag_to_icpdag(A, I) for every (DAG, I subset of nodes) pair on p<=4 nodes "
        "(8,688 pairs, quick) and p=5 (936,992 pairs, thorough), Hypothesis collider-rich DAGs p=6..9 with proper subsets I, "
        "chain graphs to p=12 (unit, scaled and signed weights, both check_chain values, every prefix/suffix/single target), "
        "signed weight matrices; pdag_to_icpdag(P, I) for every PDAG p<=4 x every I. Oracle: brute-force Markov class "
        "filtered by 'every target has the same parent set as in A', compared as a set (each once); I-CPDAG = union graph "
        "of that set; I={} gives MEC/CPDAG, I=all gives {A}, I subset J => imec(J) subset imec(I) asserted on the library's "
        "outputs; pdag_to_icpdag: ValueError iff a target has an undirected edge. Non-trivial = I proper non-empty and "
        "1 < |I-MEC| < |MEC|, or the I-CPDAG directs an edge not incident to a target. Distinct = (graph, I, variant). Also: a 1/16 slice of the 5-node pairs in the quick tier (I-CPDAG only), relabelled graphs, chains obtained from utils.chain_graph and edited by the caller, a rejected call before the call under test.")
ASSUMPTIONS = [
    "oracle: brute-force class from harness/graphs.py filtered by the targets' parent sets",
    "only targets I that are subsets of the node set are exercised; non-zero pattern of weighted inputs is what matters",
    "for PDAGs without consistent extension nothing but 'ValueError or nothing' is demanded of pdag_to_icpdag",
    "p>=6 sampled",
]


def _mec(D):
    if len(D) <= 5:
        return G.mec_table(D)
    return G.mec_bruteforce(D)


def _nontrivial(case, labels):
    return "nt" in labels or "must_raise" in labels


def _labels(D, I, mec, imec, ug):
    p = len(D)
    lab = []
    if 0 < len(I) < p:
        lab.append("proper_I")
        if 1 < len(imec) < len(mec):
            lab += ["strict_between", "nt"]
    d, u = G.split(ug)
    cd, cu = G.split(G.union_graph(mec))
    tmask = sum(1 << t for t in I)
    # edges directed in the I-CPDAG, undirected in the CPDAG, and not incident to a target
    for i in range(p):
        for j in G.bits(d[i] & cu[i]):
            if not (tmask >> i & 1 or tmask >> j & 1):
                if "propagated" not in lab:
                    lab += ["propagated"] + ([] if "nt" in lab else ["nt"])
    if len(I) == 0:
        lab.append("I_empty")
    if len(I) == p:
        lab.append("I_all")
    return lab


def check(case):
    import sempler.utils as utils
    sub = case["sub"]
    if sub.startswith("p2i"):
        return _check_p2i(utils, case)
    D = G.rows_from_lists(case["A"])
    p = len(D)
    I = sorted(case["I"])
    mec = _mec(D)
    want = G.imec_filter(mec, D, I)
    ug = G.union_graph(want)
    lab = _labels(D, I, mec, want, ug)
    for var in case.get("variants", ["int"]):
        if var == "libchain":
            # the caller gets a chain from the library's own helper, asks for its MEC, overwrites what it got, edits the chain
            # (adds the case's extra edge, if any) and only then asks for the I-MEC: all of that is the caller's own storage
            p0 = len(D)
            A = must(lib(utils.chain_graph, p0), "chain_graph(%d)" % p0)
            first = must(lib(utils.mec, A), "mec(chain_graph(%d))" % p0)
            spoil(np.asarray(first))
            for (i, j) in case.get("extra_edges", []):
                A[i, j] = 1
            if G.rows_from_matrix(A) != D:
                raise Violation("chain_graph_wrong", "utils.chain_graph(%d) (+ the caller's edits) is not the expected graph" % p0)
            keep = A.copy()
            res = must(lib(utils.imec, A, npints(set(I), len(I) + len(A), True)), "imec[libchain]")
            got, n = result_set(res, p, "imec")
            compare_sets(got, n, want, "imec[chain obtained from utils.chain_graph and edited by the caller]", "A=%s I=%s" % (case["A"], I))
            lab.append("var_libchain")
            continue
        if var == "weighted":
            A = signed_copy(D, case.get("salt", 0))
        elif var in ("near_one", "tiny_extras", "tiny_extras_w"):
            A = chain_variant(D, var[:11] if var.startswith("tiny") else var, case.get("salt", 0) * 2 + (var == "tiny_extras_w"))
        elif var == "scaled":
            A = 2.5 * to_np(D, float)
        elif var == "negated":
            A = -1.0 * to_np(D, float)
        else:
            A = to_np(D, var if var in DTYPE_NAMES else "float")
        keep = A.copy()
        Iset = set(I)
        kw = {"check_chain": False} if var == "nochain" else {}
        if case.get("after_failed_call"):
            # an earlier, unrelated call that the library rejects (a 3-cycle is not a DAG) must leave nothing behind
            bad = np.array([[0, 1, 0], [0, 0, 1], [1, 0, 0]])
            lib(utils.dag_to_icpdag, bad, {0})
            lib(utils.imec, bad, {1})
        if not case.get("icpdag_only"):
            Iarg = npints(set(Iset), len(Iset) + p, True)
            res = must(lib(utils.imec, A, Iarg, **kw), "imec[%s]" % var)
            if {int(v) for v in Iarg} != set(Iset):
                raise Violation("target_set_modified", "imec changed the target set it was given: %r (was %r)" % (sorted(int(v) for v in Iarg), sorted(Iset)))
            got, n = result_set(res, p, "imec")
            compare_sets(got, n, want, "imec[%s]" % var, "A=%s I=%s" % (case["A"], I))
        Iarg = npints(set(Iset), len(Iset) + p + 1, True)
        ic = np.asarray(must(lib(utils.dag_to_icpdag, A, Iarg), "dag_to_icpdag[%s]" % var))
        if {int(v) for v in Iarg} != set(Iset):
            raise Violation("target_set_modified", "dag_to_icpdag changed the target set it was given: %r (was %r)" % (sorted(int(v) for v in Iarg), sorted(Iset)))
        if ic.shape != (p, p) or G.rows_from_matrix(ic) != ug:
            raise Violation("icpdag_wrong", "dag_to_icpdag[%s](A=%s, I=%s) = %s, I-essential graph is %s"
                            % (var, case["A"], I, ic.astype(int).tolist(), G.lists_from_rows(ug)))
        if (len(I) + p + int(A.sum() != 0)) % 3 == 0:     # same answer with the tracing flag
            od = lib_debug(utils.dag_to_icpdag, A, set(Iset))
            if od is not None:
                icd = np.asarray(must(od, "dag_to_icpdag[%s](debug=True)" % var))
                if icd.shape != (p, p) or G.rows_from_matrix(icd) != ug:
                    raise Violation("icpdag_wrong", "dag_to_icpdag[%s](A=%s, I=%s, debug=True) = %s, I-essential graph is %s"
                                    % (var, case["A"], I, icd.astype(int).tolist(), G.lists_from_rows(ug)))
        spoil(ic)
        if not (A == keep).all():
            raise Violation("input_modified", "imec / dag_to_icpdag modified the graph argument")
        lab.append("var_" + var)
    if case.get("mono"):
        # enlarging I never enlarges the class: checked on the library's own outputs
        A = to_np(D)
        prev = None
        for k in range(len(I) + 1):
            cur, _ = result_set(must(lib(utils.imec, A, set(I[:k])), "imec"), p, "imec")
            if prev is not None and not cur <= prev:
                raise Violation("not_monotone", "imec(A, %s) is not a subset of imec(A, %s); A=%s" % (I[:k], I[:k - 1], case["A"]))
            prev = cur
        lab.append("mono")
    return lab


def _check_p2i(utils, case):
    P = G.rows_from_lists(case["P"])
    p = len(P)
    I = sorted(case["I"])
    d, u = G.split(P)
    bad_target = any(u[t] for t in I)
    A = to_np(P, case.get("dtype", "int"))
    keep = A.copy()
    Iarg = npints(set(I), len(I) + len(A), True)
    o = lib(utils.pdag_to_icpdag, A, Iarg)
    if {int(v) for v in Iarg} != set(I):
        raise Violation("target_set_modified", "pdag_to_icpdag changed the target set it was given: %r (was %r)" % (sorted(int(v) for v in Iarg), sorted(I)))
    lab = []
    if bad_target:
        must_raise(o, ValueError, "pdag_to_icpdag(undirected edge at a target)")
        lab.append("must_raise")
    else:
        E = G.extensions_table(P) if p <= 5 else G.extensions_bruteforce(P)
        if not E:
            if o.ok:
                raise Violation("p2i_no_extension_accepted", "pdag_to_icpdag(%s, %s) returned although P has no consistent extension" % (case["P"], I))
            lab.append("no_extension")
        else:
            res = np.asarray(must(o, "pdag_to_icpdag"))
            any_member = min(E)
            mec = _mec(any_member)
            want = G.imec_filter(mec, any_member, I)
            # all extensions of P agree on the targets' parents (their edges are directed in P)
            if not E <= want:
                raise HarnessError("extensions of P not inside one I-class: %r %r" % (P, I))
            ug = G.union_graph(want)
            if G.rows_from_matrix(res) != ug:
                raise Violation("p2i_wrong", "pdag_to_icpdag(%s, %s) = %s, I-essential graph is %s"
                                % (case["P"], I, res.astype(int).tolist(), G.lists_from_rows(ug)))
            lab += _labels(any_member, I, mec, want, ug) + ["has_extension"]
    if not (A == keep).all():
        raise Violation("input_modified", "pdag_to_icpdag modified its argument")
    return lab


def _subsets(p):
    return [G.bits(m) for m in range(1 << p)]


def _run_pairs(acc, job):
    dags = G.all_dags(job["p"])
    subs = _subsets(job["p"])
    for k, D in enumerate(dags):
        if k % job["nshards"] != job["shard"]:
            continue
        for m, I in enumerate(subs):
            variants = [["int"], ["float"], ["weighted"], ["nochain"], ["uint8"], ["bool"], ["weighted"], ["int32"]][(k + m) % 8]
            if job.get("step") and (k * len(subs) + m) % job["step"] != job["offset"] % job["step"]:
                continue
            case = {"sub": job["sub"], "A": G.lists_from_rows(D), "I": I, "variants": variants, "salt": k + m,
                    "mono": (m == len(subs) - 1 and k % 5 == 0) and not job.get("step"), "icpdag_only": bool(job.get("step")),
                    "after_failed_call": (k + m) % 7 == 0}
            try:
                lab = check(case)
                acc.record(case, lab, _nontrivial(case, lab), by_construction=True, sample=((k * 37 + m) % 4999 == 1))
            except Violation as v:
                acc.record(case, [], False)
                acc.violation(case, v)
    acc.exhaustive = not job.get("step")


def _run_straddle(acc, job):
    """Every DAG on 3 and 4 nodes relabelled across label 8 (see props/c07.py), every target set on the used labels of size
    0, 1 and all: imec and dag_to_icpdag against brute force."""
    from props.c07 import STRADDLE_MAPS, _straddle
    n = 0
    for p in (3, 4):
        for k, D in enumerate(G.all_dags(p)):
            for mi, (pbig, lab) in enumerate(STRADDLE_MAPS):
                n += 1
                if n % job["nshards"] != job["shard"]:
                    continue
                B = _straddle(D, pbig, lab)
                used = lab[:p]
                for m, I in enumerate([[]] + [[t] for t in used] + [sorted(used)]):
                    case = {"sub": "pairs_hyp", "A": G.lists_from_rows(B), "I": I, "variants": [["int"], ["weighted"], ["float"]][(k + m) % 3],
                            "salt": k + m, "mono": False, "icpdag_only": False, "after_failed_call": False}
                    try:
                        lab_ = check(case)
                        acc.record(case, lab_ + ["straddle_8"], True, by_construction=True, sample=(n % 1499 == 3 and m == 1))
                    except Violation as v:
                        acc.record(case, [], False)
                        acc.violation(case, v)
    acc.exhaustive = True


def _run_p2i(acc, job):
    subs = _subsets(job["p"])
    for k, (code, P) in enumerate(pdag_codes(job["p"])):
        if k % job["nshards"] != job["shard"]:
            continue
        for m, I in enumerate(subs):
            case = {"sub": "p2i_exh", "P": G.lists_from_rows(P), "I": I, "dtype": DTYPE_NAMES[(code + m) % 6]}
            try:
                lab = check(case)
                acc.record(case, lab, _nontrivial(case, lab), by_construction=True, sample=((code + m) % 3989 == 1))
            except Violation as v:
                acc.record(case, [], False)
                acc.violation(case, v)
    acc.exhaustive = True


def _run_chain(acc, job):
    for p in job["ps"]:
        chain = tuple((1 << (i + 1)) if i < p - 1 else 0 for i in range(p))
        targets = [[], list(range(p))] + [[t] for t in range(p)] + [list(range(t)) for t in range(2, p)] + \
                  [[0, p - 1]] * (p >= 3) + [[t for t in range(p) if t % 2] for _ in (0,) if p >= 4]
        for I in targets:
            variants = ["int", "float", "scaled", "weighted", "negated", "uint8", "bool", "near_one"] + (["nochain"] if p <= job["p_nochain"] else [])
            case = {"sub": "chain", "A": G.lists_from_rows(chain), "I": I, "variants": variants, "salt": p + len(I)}
            cases = [case, dict(case, variants=["libchain", "int"])]
            if 3 <= p <= 7:
                # the library's chain with one extra edge 0 -> 2 added by the caller (no longer a chain graph)
                D2 = list(chain)
                D2[0] |= 1 << 2
                cases.append({"sub": "chain", "A": G.lists_from_rows(tuple(D2)), "I": I, "variants": ["libchain", "float", "tiny_extras", "tiny_extras_w"], "extra_edges": [[0, 2]], "salt": p})
            for c in cases:
                try:
                    lab = check(c)
                    acc.record(c, lab + ["chain_p%d" % p], p >= 3 and 0 < len(I) < p, by_construction=True,
                               sample=(p in (5, 9) and len(I) == 1 and I[0] == 2 and c is case))
                except Violation as v:
                    acc.record(c, [], False)
                    acc.violation(c, v)
    acc.exhaustive = True


@st.composite
def _hyp_case(draw):
    A = draw(S.dag_pattern(6, 9, shapes=("random", "collider", "collider", "dense", "chain", "sparse")))
    if draw(st.booleans()):
        A = draw(S.embedded(draw(S.dag_pattern(3, 6, shapes=("random", "dense", "collider", "collider", "complete")))))
    elif draw(st.integers(0, 4)) == 0:
        A = draw(S.disjoint_union(S.dag_pattern(2, 3, shapes=("random", "chain", "collider", "complete")), 3, 4))
    p = len(A)
    edges = [(i, j) for i in range(p) for j in range(p) if A[i][j]]
    if len(edges) > 11:
        drop = draw(st.lists(st.sampled_from(edges), min_size=len(edges) - 11, max_size=len(edges) - 11, unique=True))
        for (i, j) in drop:
            A[i][j] = 0
    I = draw(st.lists(st.integers(0, p - 1), min_size=1, max_size=max(1, p // 2), unique=True))
    return {"sub": "pairs_hyp", "A": A, "I": sorted(I), "variants": draw(st.sampled_from([["int"], ["float"], ["weighted"], ["nochain"], ["uint8"], ["bool"]])),
            "salt": draw(st.integers(0, 7)), "mono": draw(st.integers(0, 4)) == 0}


def plan(tier, seed):
    jobs = [{"sub": "chain", "seed": seed, "ps": ps, "p_nochain": 8 if tier == "quick" else 10, "cost": 30}
            for ps in ([1, 2, 3, 4, 5, 6], [7], [8], [9], [10], [11], [12])]
    for p in (1, 2, 3):
        jobs.append({"sub": "pairs_exh", "p": p, "shard": 0, "nshards": 1, "seed": seed, "cost": 1})
    for k in range(16):
        jobs.append({"sub": "straddle", "shard": k, "nshards": 16, "seed": seed, "cost": 12})
        jobs.append({"sub": "p2i_exh", "p": p, "shard": 0, "nshards": 1, "seed": seed, "cost": 1})
    for k in range(16):
        jobs.append({"sub": "pairs_exh", "p": 4, "shard": k, "nshards": 16, "seed": seed, "cost": 10})
        jobs.append({"sub": "p2i_exh", "p": 4, "shard": k, "nshards": 16, "seed": seed, "cost": 12})
    if tier == "thorough":
        for k in range(192):
            jobs.append({"sub": "pairs_exh", "p": 5, "shard": k, "nshards": 192, "seed": seed, "cost": 80})
    else:
        # quick: a seed-dependent 1/16 slice of the 936,992 (DAG, I) pairs on 5 nodes, I-CPDAG only (no class enumeration)
        for k in range(32):
            jobs.append({"sub": "pairs_p5_slice", "p": 5, "shard": k, "nshards": 32, "step": 16, "offset": seed, "seed": seed, "cost": 25})
    n = scaled(2400 if tier == "quick" else 30000)
    shards = 16 if tier == "quick" else 32
    for k in range(shards):
        jobs.append({"sub": "pairs_hyp", "seed": seed, "shard": k, "n": max(1, n // shards), "cost": 10})
    return jobs


def run(job):
    acc = Acc(job["sub"])
    if job["sub"] == "straddle":
        _run_straddle(acc, job)
        return acc
    if job["sub"] in ("pairs_exh", "pairs_p5_slice"):
        _run_pairs(acc, job)
    elif job["sub"] == "p2i_exh":
        _run_p2i(acc, job)
    elif job["sub"] == "chain":
        _run_chain(acc, job)
    else:
        run_property(acc, _hyp_case(), check, _nontrivial, job["n"], job_seed(job))
        acc.exhaustive = False
    return acc


def selfcheck():
    G.selfcheck()


LEVEL_TEXT = ("Exploration, exhaustive over every (DAG, target set) pair up to 4 nodes in the quick tier (8,688 pairs) and 5 "
              "nodes (936,992 pairs) in the thorough tier: imec and dag_to_icpdag are compared with the brute-force Markov "
              "class filtered by the targets' parent sets and its union graph; chains to 12 nodes cover the shortcut vs. the "
              "general path with unit and non-unit weights; pdag_to_icpdag's precondition is checked on every PDAG x target "
              "set up to 4 nodes; 6-9 nodes sampled with collider-rich DAGs and proper target subsets.")
LEVEL_NOTE = "Trusted: brute-force class enumeration in /verif/harness/graphs.py. Beyond 5 nodes sampled only."
TECHNIQUE = "exhaustive (DAG, target-set) enumeration + Hypothesis vs. brute-force interventional-class oracle"
DESIGN_REF = "DESIGN.md section 4, C10"
