"""C12 - sampled intervention targets respect size, range and disjointness."""
import itertools
import math

import numpy as np
from hypothesis import strategies as st

from harness.core import Acc, Violation, lib, must, must_raise
from harness.hyp import job_seed, run_property, scaled

PROP = "C12"
RULE = ("Exhaustive grid: p in 1..7, K in 0..8, size = every int 0..8 and every (lo <= hi) range in 0..8, replace in {True, False}, "
        "malformed tuples of length 0, 1, 3 - each with several seeds derived from VERIF_SEED (20 quick / 200 thorough for the "
        "feasible cells); Hypothesis for p up to 60. Oracle computed from the statement: ValueError iff the tuple length is not "
        "2, or max size > p, or (not replace and max size * K > p); otherwise a list of exactly K lists of distinct ints in "
        "[0, p), each of the requested length / inside [lo, hi], pairwise disjoint when not replace, identical for identical "
        "seeds. Over the seeds of a feasible cell: every size in [lo, hi] and every variable occurs (only demanded where the "
        "coupon-collector miss probability of a correct sampler is < 1e-12). Non-trivial = feasible cell on the boundary "
        "(max size*K = p without replacement, size = p, size 0 with K > p, lo < hi) or infeasible cell adjacent to a feasible one. Also: pools of 61..25,000 variables with sizes just below p/20, p/10, p/2 and K*p > 10^7 (~600k interventions per quick run); per-cell seed counts raised until the coverage demands are effective.")
ASSUMPTIONS = [
    "lo > hi is not generated; element types (numpy ints) are free",
    "coverage of sizes / variables is only demanded when a correct sampler misses with probability < 1e-12",
    "sizes / counts / integer bounds are generated as Python ints or signed numpy integers of 32 bits or more (DESIGN.md 8.7b)",
]


def expected_error(p, K, size, replace):
    if isinstance(size, (tuple, list)):
        if len(size) != 2:
            return True
        mx = size[1]
    else:
        mx = size
    if mx > p:
        return True
    if not replace and mx * K > p:
        return True
    return False


def _size_arg(size):
    return tuple(size) if isinstance(size, list) else size


def check(case):
    import sempler.generators as gens
    p, K, replace = case["p"], case["K"], case["replace"]
    size = _size_arg(case["size"])
    seeds = case["seeds"]
    err = expected_error(p, K, size, replace)
    ctx = "intervention_targets(p=%d, K=%d, size=%r, replace=%r)" % (p, K, size, replace)
    lab = ["replace" if replace else "no_replace", "tuple" if isinstance(size, tuple) else "int"]
    if isinstance(size, tuple) and len(size) == 2:
        lo, hi = size
    elif isinstance(size, tuple):
        lo = hi = None
    else:
        lo = hi = size
    sizes_seen, vars_seen = set(), set()
    for j, s in enumerate(seeds):
        # the same request in the ways a caller may write it: numpy integers for p / K / size, keywords or positions
        from props.gcommon import npint
        pa, Ka = npint(p, j + 2), npint(K, j + 4)
        sa = tuple(npint(v, j + 3 + n) for n, v in enumerate(size)) if isinstance(size, tuple) else npint(size, j)
        if j % 7 == 3:
            o = lib(gens.intervention_targets, p=pa, K=Ka, size=sa, replace=replace, random_state=s)
        elif j % 7 == 5:
            o = lib(gens.intervention_targets, pa, Ka, sa, replace, s)
        else:
            o = lib(gens.intervention_targets, pa, Ka, sa, replace=replace, random_state=s)
        if err:
            must_raise(o, ValueError, "%s [infeasible / malformed]" % ctx)
            continue
        res = must(o, "%s, random_state=%d [feasible]" % (ctx, s))
        if not isinstance(res, (list, tuple)) or len(res) != K:
            raise Violation("wrong_K", "%s seed %d returned %r (expected %d interventions)" % (ctx, s, res, K))
        used = set()
        for iv in res:
            iv = [int(v) for v in iv]
            if len(set(iv)) != len(iv):
                raise Violation("repeated_variable", "%s seed %d: intervention %r repeats a variable" % (ctx, s, iv))
            if any(v < 0 or v >= p for v in iv):
                raise Violation("variable_out_of_range", "%s seed %d: intervention %r" % (ctx, s, iv))
            if not lo <= len(iv) <= hi:
                raise Violation("wrong_size", "%s seed %d: intervention %r has size %d outside [%d, %d]" % (ctx, s, iv, len(iv), lo, hi))
            if not replace and used & set(iv):
                raise Violation("not_disjoint", "%s seed %d: %r shares a variable with an earlier intervention in %r" % (ctx, s, iv, res))
            used |= set(iv)
            sizes_seen.add(len(iv))
            vars_seen |= set(iv)
        again = must(lib(gens.intervention_targets, p, K, size, replace=replace, random_state=s), "repeat")
        if [[int(v) for v in iv] for iv in again] != [[int(v) for v in iv] for iv in res]:
            raise Violation("not_deterministic", "%s seed %d: two calls differ" % (ctx, s))
    if err:
        lab.append("infeasible")
        # adjacent to a feasible cell?
        if isinstance(size, tuple) and len(size) != 2:
            lab += ["malformed", "nt"]
        else:
            mx = hi
            if (mx == p + 1) or (not replace and mx * K > p and (mx * (K - 1) <= p)):
                lab += ["boundary_infeasible", "nt"]
        return lab
    lab.append("feasible")
    draws = len(set(seeds)) * K          # identical seeds repeat the same draw: only distinct seeds count as independent
    if K >= 1 and lo is not None:
        nsz = hi - lo + 1
        # every size of the range occurs: miss probability of one size <= (1-1/nsz)^draws
        if nsz >= 2 and nsz * (1 - 1.0 / nsz) ** draws < 1e-12:
            missing = set(range(lo, hi + 1)) - sizes_seen
            if missing:
                raise Violation("size_never_drawn", "%s: sizes %s never occur over %d interventions" % (ctx, sorted(missing), draws))
            lab.append("sizes_covered")
        # every variable occurs: P(variable v not in one intervention of size >= max(lo,1)) <= 1 - max(lo,1)/p  (with replacement)
        if replace and hi >= 1:
            pin = (lo + hi) / 2.0 / p          # P(a given variable is in one intervention) = E[size] / p
            if p * (1 - min(pin, 1.0)) ** draws < 1e-12:
                missing = set(range(p)) - vars_seen
                if missing:
                    raise Violation("variable_never_drawn", "%s: variables %s never occur over %d interventions" % (ctx, sorted(missing), draws))
                lab.append("variables_covered")
    if (not replace and hi * K == p and K >= 1) or hi == p or (hi == 0 and K > p) or (lo is not None and lo < hi):
        lab += ["boundary_feasible", "nt"]
    return lab


def _nontrivial(case, labels):
    return "nt" in labels


def _cells():
    sizes = list(range(0, 9)) + [[a, b] for a in range(0, 9) for b in range(a, 9)] + [[], [2], [1, 2, 3]]
    for p in range(1, 8):
        for K in range(0, 9):
            for size in sizes:
                for replace in (True, False):
                    yield {"sub": "grid", "p": p, "K": K, "size": size, "replace": replace}


@st.composite
def big_case(draw):
    p = draw(st.integers(8, 60))
    K = draw(st.integers(0, 12))
    if draw(st.booleans()):
        mx = draw(st.sampled_from([0, 1, 2, p // max(K, 1), p // max(K, 1) + 1, p, p + 1]) | st.integers(0, p + 2))
        size = mx
    else:
        hi = draw(st.sampled_from([1, p // max(K, 1), p // max(K, 1) + 1, p, p + 1]) | st.integers(0, p + 2))
        lo = draw(st.integers(0, max(hi, 0)))
        size = [lo, max(hi, lo)]
    return {"sub": "big", "p": p, "K": K, "size": size, "replace": draw(st.booleans()),
            "seeds": [draw(st.sampled_from([0, 1]) | st.integers(0, 2 ** 32 - 1)) for _ in range(3)]}


LARGE = [(61, 500, 3, True), (100, 400, 4, True), (250, 40, 12, True), (250, 20, 12, False), (600, 20, [5, 29], False),
         (600, 300, [3, 12], True), (130, 30, 4, False), (1000, 200, 5, True),
         # sizes just below p/20, p/10, p/2 (where an implementation may switch sampling strategies)
         (1000, 200, 49, True), (2000, 100, 99, True), (400, 300, 19, True), (900, 15, [40, 44], False),
         (300, 200, 29, True), (300, 2, 149, False), (64, 300, 31, True),
         # hundreds of disjoint interventions out of a pool at least four times as large (coincidences BETWEEN interventions)
         (1000, 250, 1, False), (2000, 500, 1, False), (400, 100, 1, False), (4000, 300, [1, 3], False), (1200, 100, 3, False),
         # few, large interventions out of a pool more than fifty times as large (coincidences INSIDE one intervention)
         (20000, 2, 200, False), (5000, 2, 50, False), (50000, 3, 300, False), (20000, 2, 200, True),
         # every variable occurs: thousands of single targets out of 64 .. 1000 variables
         (64, 600, 1, True), (200, 900, 3, True), (255, 1500, 1, True), (1000, 5000, 2, True)]
HUGE = [(25000, 401, 2, True), (101, 100001, 3, True), (5000, 2001, [1, 3], True)]        # K * p > 10^7


def plan(tier, seed):
    jobs = []
    # many interventions of few targets out of a large pool (rare coincidences inside one intervention)
    reps = 240 if tier == "quick" else 2400
    for k, (p, K, size, replace) in enumerate(LARGE):
        for r in range(0, reps, 20):
            jobs.append({"sub": "large_p", "seed": seed, "p": p, "K": K, "size": size, "replace": replace,
                         "seeds": [seed * 7919 + k * 100003 + r + j for j in range(20)], "cost": 6})
    for k, (p, K, size, replace) in enumerate(HUGE):
        jobs.append({"sub": "large_p", "seed": seed, "p": p, "K": K, "size": size, "replace": replace, "seeds": [seed * 31 + k], "cost": 30})
    nshards = 32 if tier == "quick" else 96
    for k in range(nshards):
        jobs.append({"sub": "grid", "seed": seed, "shard": k, "nshards": nshards, "nseeds": 60 if tier == "quick" else 400, "cost": 10})
    n = scaled(6400 if tier == "quick" else 80000)
    shards = 8 if tier == "quick" else 32
    for k in range(shards):
        jobs.append({"sub": "big", "seed": seed, "shard": k, "n": max(1, n // shards), "cost": 3})
    return jobs


def run(job):
    acc = Acc(job["sub"])
    if job["sub"] == "large_p":
        # requests with hundreds of interventions are judged over all seeds of the job at once ("every variable occurs")
        groups = [job["seeds"]] if (job["replace"] and job["K"] >= 500) else [[s] for s in job["seeds"]]
        for grp in groups:
            s = grp[0]
            case = {"sub": "large_p", "p": job["p"], "K": job["K"], "size": job["size"], "replace": job["replace"], "seeds": list(grp)}
            try:
                lab = check(case)
                acc.record(case, lab + ["large_pool"], True, by_construction=True, sample=(s == job["seeds"][0] and job["p"] == 61))
                acc.extra["interventions_checked"] = acc.extra.get("interventions_checked", 0) + job["K"]
            except Violation as v:
                acc.record(case, [], False)
                acc.violation(case, v)
        acc.exhaustive = False
        return acc
    if job["sub"] == "grid":
        calls = 0
        for n, case in enumerate(_cells()):
            if n % job["nshards"] != job["shard"]:
                continue
            err = expected_error(case["p"], case["K"], _size_arg(case["size"]), case["replace"])
            ns = 3 if err else job["nseeds"]
            if not err and case["K"] >= 1:
                # enough seeds to make the coverage demands effective (every size of a range, every variable), capped
                sz = case["size"]
                lo_, hi_ = (sz if isinstance(sz, list) else (sz, sz))
                need = 0
                if hi_ > lo_:
                    nsz = hi_ - lo_ + 1
                    need = max(need, math.log(1e-12 / nsz) / math.log(1 - 1.0 / nsz) / case["K"])
                if case["replace"] and hi_ >= 1 and (lo_ + hi_) / 2.0 < case["p"]:
                    need = max(need, math.log(1e-12 / case["p"]) / math.log(1 - (lo_ + hi_) / 2.0 / case["p"]) / case["K"])
                ns = int(min(max(ns, need + 1), 900))
            case["seeds"] = [job["seed"] * 1000003 + n * 211 + s for s in range(ns)]
            if not err:
                case["seeds"][0] = 0
            try:
                lab = check(case)
                nt = _nontrivial(case, lab)
                acc.record(case, lab, nt, by_construction=True, sample=False)
                # every (cell, seed) pair is one library call = one evaluation, distinct by construction
                acc.evaluations += ns - 1
                if nt:
                    acc.nt_exhaustive += ns - 1
                if nt and len(acc.samples) < 2 and n % 97 == 0:
                    acc.samples.append({**{k: v for k, v in case.items() if k != "seeds"}, "seeds": "%d seeds" % ns})
            except Violation as v:
                acc.record(case, [], False)
                acc.violation(case, v)
            calls += ns
        acc.extra["generator_calls"] = calls
        acc.exhaustive = True
    else:
        run_property(acc, big_case(), check, _nontrivial, job["n"], job_seed(job))
        acc.exhaustive = False
    return acc


LEVEL_TEXT = ("Exploration, exhaustive over the parameter grid p<=7, K<=8, every integer size and (lo<=hi) range in 0..8, both replace "
              "modes and malformed tuples - in particular every cell on either side of the feasibility boundary - each feasible "
              "cell with 20 (quick) / 200 (thorough) seeds; Hypothesis for p up to 60. The expected outcome (exception or validity "
              "predicate) is computed from the statement, never from the implementation.")
LEVEL_NOTE = "Trusted: the feasibility rule as stated in the property; coverage demands are made only where a correct sampler misses with probability < 1e-12."
TECHNIQUE = "exhaustive parameter-grid enumeration x seed sweep + Hypothesis vs. validity / exception oracle"
DESIGN_REF = "DESIGN.md section 4, C12"
