"""C09 - consistent-extension search and Meek orientation are sound and complete."""
import numpy as np
from hypothesis import strategies as st

from harness import graphs as G
from harness import strategies as S
from harness.core import Acc, HarnessError, Violation, lib, must, must_raise
from harness.hyp import job_seed, run_property, scaled
from props.gcommon import DTYPE_NAMES, compare_sets, lib_debug, pdag_codes, result_set, spoil, to_np

PROP = "C09"
RULE = ("Every PDAG with acyclic directed part on p<=4 nodes (quick; 3,675 graphs) and p=5 (thorough; 765,664), plus "
        "Hypothesis PDAGs on 6..8 nodes (uniform, and 'Meek-biased': CPDAG of a random DAG with a random subset of its "
        "reversible edges oriented as in the DAG). Oracle: E = brute-force set of consistent extensions. pdag_to_dag must "
        "return a member of E or raise ValueError iff E is empty; has_consistent_extension == (E non-empty); for E non-empty "
        "maximally_orient(P) must equal the union graph of E (soundness and completeness in one comparison) and all_dags of "
        "it must equal E. Non-trivial = E non-empty and some edge undirected in P is directed in the union graph (something "
        "had to be inferred), or E empty. The evidence counts, with the library's own rule_k predicates, the cases in which "
        "rule 3 / rule 4 is the only applicable rule for some edge at some step. Also: relabelled graphs, further dtypes and same-sign weighted presentations, a parametrised rule-4 gadget family (up to 64x4 chains) judged by the reference closure, an undirected K_470 minus an edge.")
ASSUMPTIONS = [
    "oracle: brute-force extension enumeration (harness/graphs.py)",
    "Meek (1995): for a PDAG with a consistent extension the closure under rules 1-4 equals the union graph of its extensions",
    "for E empty nothing is demanded of maximally_orient; any member of E is accepted from pdag_to_dag",
    "p>=6 sampled",
    "pdag_to_dag / has_consistent_extension / maximally_orient are also given the PDAG as a real matrix in the library's documented "
    "'!= 0' convention (undirected pairs with same-sign entries); all_dags is only used on 0/1 matrices",
]


def _nontrivial(case, labels):
    return "inferred" in labels or "no_extension" in labels


def _rule_usage(utils, A):
    """Which Meek rules are *needed*: replay the closure and note, for each orientation step,
    the rules that fire on the oriented edge.  Uses the library's public predicates only to
    classify cases (not part of the verdict)."""
    P = A.copy()
    used = set()
    for _ in range(64):
        progressed = False
        for (i, j) in utils.undirected_edges(P):
            for (a, b) in ((i, j), (j, i)):
                fired = [k for k, r in enumerate((utils.rule_1, utils.rule_2, utils.rule_3, utils.rule_4), 1) if r(a, b, P)]
                if fired:
                    if fired == [3]:
                        used.add("only_rule3")
                    if fired == [4]:
                        used.add("only_rule4")
                    for k in fired:
                        used.add("rule%d" % k)
                    P[b, a] = 0
                    progressed = True
                    break
            if progressed:
                break
        if not progressed:
            break
    return sorted(used)


def _weighted_pdag(P, salt):
    """The PDAG as a real matrix: directed edges carry weights of any sign, the two entries of an undirected edge
    carry (different) non-zero weights of the same sign (opposite signs would cancel in A + A.T, outside the domain)."""
    p = len(P)
    d, u = G.split(P)
    A = np.zeros((p, p))
    vals = [1.0, -1.0, 0.5, -2.0, 1.5, -0.5, 3.0, -1.0]
    k = salt
    for i in range(p):
        for j in range(p):
            if d[i] >> j & 1:
                # even salts: the sign of a directed edge is the parity of its tail, so that sums of products over
                # two-step paths i -> k -> j through an even and an odd k cancel exactly
                A[i, j] = (1.0 if i % 2 == 0 else -1.0) if salt % 2 == 0 else vals[k % 8]
                k += 1
            elif u[i] >> j & 1 and i < j:
                s = 1.0 if (k % 3) else -1.0
                A[i, j], A[j, i] = s * (1 + k % 2), s * 0.5
                k += 1
    return A


def gadget(nh, nk, lab_mult):
    """Rule-4 family on nh + nk + 2 scrambled nodes: i - h (all h), i - k (all k), i - j undirected; h -> k and k -> j directed;
    H and K internally complete and undirected; h, j non-adjacent.  The DAG 'H, i, K, j' (all edges forward) has no
    v-structure and extends it, so the closure under Meek's rules is the union graph of its extensions."""
    p = nh + nk + 2
    lab = [(lab_mult * t + 1) % p for t in range(p)]
    H, i, K, j = lab[:nh], lab[nh], lab[nh + 1:nh + 1 + nk], lab[p - 1]
    rows = [0] * p

    def und(a, b):
        rows[a] |= 1 << b
        rows[b] |= 1 << a

    def arc(a, b):
        rows[a] |= 1 << b
    for a in range(nh):
        for b in range(a + 1, nh):
            und(H[a], H[b])
    for a in range(nk):
        for b in range(a + 1, nk):
            und(K[a], K[b])
    for h in H:
        und(i, h)
        for k in K:
            arc(h, k)
    for k in K:
        und(i, k)
        arc(k, j)
    und(i, j)
    return tuple(rows), (i, j)


def check_gadget(case):
    """Large structured PDAGs whose expected closure comes from the reference Meek closure (validated against brute force
    on all graphs with <= 4 nodes at start-up); the pair (i, j) must come out as i -> j."""
    import sempler.utils as utils
    P, (i, j) = gadget(case["nh"], case["nk"], case["mult"])
    p = len(P)
    A = to_np(P, case.get("dtype", "int"))
    keep = A.copy()
    want = G._meek_closure(P)
    if not (want[i] >> j & 1 and not want[j] >> i & 1):
        raise HarnessError("gadget construction: reference closure does not orient i -> j")
    M = np.asarray(must(lib(utils.maximally_orient, A), "maximally_orient(rule-4 gadget %dx%d)" % (case["nh"], case["nk"])))
    got = G.rows_from_matrix(M)
    if got != want:
        diff = [(a, b) for a in range(p) for b in range(p) if (got[a] >> b & 1) != (want[a] >> b & 1)]
        raise Violation("meek_incomplete" if all(got[a] >> b & 1 for (a, b) in diff) else "meek_unsound",
                        "maximally_orient on the rule-4 gadget with %d x %d chains i - h -> k -> j (p=%d) differs from the Meek closure at %d "
                        "entries, e.g. %s; i=%d j=%d" % (case["nh"], case["nk"], p, len(diff), diff[:4], i, j))
    D = np.asarray(must(lib(utils.pdag_to_dag, A), "pdag_to_dag(gadget)"))
    d = G.rows_from_matrix(D)
    if G.skeleton(d) != G.skeleton(P) or not G.is_acyclic_digraph(d) or G.vstructures(d) != G.vstructures(P) or any(
            (G.split(P)[0][a] & ~d[a]) for a in range(p)):
        raise Violation("extension_wrong", "pdag_to_dag on the rule-4 gadget (p=%d) is not a consistent extension" % p)
    if not (A == keep).all():
        raise Violation("input_modified", "maximally_orient / pdag_to_dag modified its argument")
    return ["gadget", "inferred", "rule4", "chains_%d" % (case["nh"] * case["nk"])]


def check_clique(case):
    """pdag_to_dag / has_consistent_extension on an undirected complete graph on several hundred nodes minus a few edges
    (chordal, hence extendable): the result must be acyclic on the same skeleton without any v-structure."""
    import sempler.utils as utils
    p = case["p"]
    A = 1 - np.eye(p, dtype=int)
    for (a, b) in case["missing"]:
        A[a, b] = A[b, a] = 0
    keep = A.copy()
    D = np.asarray(must(lib(utils.pdag_to_dag, A), "pdag_to_dag(K_%d minus %s)" % (p, case["missing"]))) != 0
    if D.shape != (p, p) or not np.array_equal(D | D.T, A != 0) or (D & D.T).any():
        raise Violation("extension_wrong", "pdag_to_dag(K_%d minus %s): wrong skeleton or an edge left undirected" % (p, case["missing"]))
    # a DAG on an (almost) complete skeleton: acyclic iff the in-degrees are compatible with a linear order
    from props.gcommon import has_cycle_big
    if has_cycle_big(D):
        raise Violation("extension_wrong", "pdag_to_dag(K_%d minus %s) has a directed cycle" % (p, case["missing"]))
    adj = A != 0
    new_v = []
    for (a, b) in case["missing"]:
        common = np.where(D[a] & D[b])[0]          # a -> c <- b with a, b non-adjacent
        if len(common):
            new_v.append((a, int(common[0]), b))
    if new_v:
        raise Violation("extension_wrong", "pdag_to_dag(K_%d minus %s) creates the v-structure(s) %s" % (p, case["missing"], new_v[:3]))
    if not np.array_equal(A, keep):
        raise Violation("input_modified", "pdag_to_dag modified its argument")
    return ["big_clique", "has_extension", "inferred"]


def check(case):
    if case["sub"] == "gadget":
        return check_gadget(case)
    if case["sub"] == "big_clique":
        return check_clique(case)
    import sempler.utils as utils
    P = G.rows_from_lists(case["P"])
    p = len(P)
    E = G.extensions_table(P) if p <= 5 else G.extensions_bruteforce(P)
    A = to_np(P, case.get("dtype", "int")) if case.get("dtype") != "weighted" else _weighted_pdag(P, case.get("salt", 0))
    keep = A.copy()
    lab = []

    o = lib(utils.pdag_to_dag, A)
    h = must(lib(utils.has_consistent_extension, A), "has_consistent_extension")
    if bool(h) != bool(E):
        raise Violation("has_extension_wrong", "has_consistent_extension(%s) = %r but %d extensions exist" % (case["P"], h, len(E)))
    if not E:
        must_raise(o, ValueError, "pdag_to_dag(no extension)")
        lab.append("no_extension")
    else:
        D = np.asarray(must(o, "pdag_to_dag"))
        if D.shape != (p, p) or G.rows_from_matrix(D) not in E:
            raise Violation("extension_wrong", "pdag_to_dag(%s) = %s is not a consistent extension (%d exist)"
                            % (case["P"], D.astype(int).tolist(), len(E)))
        ug = G.union_graph(E)
        M = np.asarray(must(lib(utils.maximally_orient, A), "maximally_orient"))
        got = G.rows_from_matrix(M)
        if got != ug:
            d_got, u_got = G.split(got)
            d_ug, u_ug = G.split(ug)
            kind = "meek_unsound" if any(dg & ~du for dg, du in zip(d_got, d_ug)) or G.skeleton(got) != G.skeleton(ug) else "meek_incomplete"
            raise Violation(kind, "maximally_orient(%s) = %s, but the edges directed in all %d extensions are %s"
                            % (case["P"], M.astype(int).tolist(), len(E), G.lists_from_rows(ug)))
        if ug != P:
            lab.append("inferred")
            if case.get("rules", True):
                try:                      # classification only (uses the library's public rule_k helpers); never part of the verdict
                    lab += _rule_usage(utils, A)
                except Exception:         # noqa: BLE001
                    lab.append("rule_usage_unavailable")
        if case.get("alldags") and case.get("dtype") != "weighted":     # all_dags is only specified for 0/1 PDAGs
            res = must(lib(utils.all_dags, M), "all_dags(maximally_orient)")
            gs, n = result_set(res, p, "all_dags")
            compare_sets(gs, n, E, "all_dags(maximally_orient(P))", "P=%s" % case["P"])
            lab.append("alldags")
        lab.append("has_extension")
        if case.get("debug"):             # the tracing flag is a configuration: same answers with it
            od = lib_debug(utils.maximally_orient, A)
            if od is not None:
                Md = np.asarray(must(od, "maximally_orient(debug=True)"))
                if Md.shape != M.shape or G.rows_from_matrix(Md) != ug:
                    raise Violation("debug_changes_result", "maximally_orient(%s, debug=True) = %s differs from the result without "
                                    "the flag %s" % (case["P"], Md.astype(int).tolist(), M.astype(int).tolist()))
            od = lib_debug(utils.pdag_to_dag, A)
            if od is not None:
                Dd = np.asarray(must(od, "pdag_to_dag(debug=True)"))
                if Dd.shape != (p, p) or G.rows_from_matrix(Dd) not in E:
                    raise Violation("debug_changes_result", "pdag_to_dag(%s, debug=True) = %s is not a consistent extension"
                                    % (case["P"], Dd.astype(int).tolist()))
            lab.append("debug_flag")
        spoil(D)
        spoil(M)
    if not (A == keep).all():
        raise Violation("input_modified", "pdag_to_dag / maximally_orient modified its argument")
    return lab


def _run_exh(acc, job):
    for k, (code, P) in enumerate(pdag_codes(job["p"])):
        if k % job["nshards"] != job["shard"]:
            continue
        case = {"sub": "pdag_exh", "P": G.lists_from_rows(P), "dtype": (DTYPE_NAMES + ["weighted"])[code % 7], "salt": code % 5,
                "alldags": job["p"] <= 4 or code % 53 == 0}
        if code % 11 == 4:
            case["debug"] = True
        try:
            lab = check(case)
            acc.record(case, lab, _nontrivial(case, lab), by_construction=True, sample=(code % 2999 == 9))
        except Violation as v:
            acc.record(case, [], False)
            acc.violation(case, v)
    acc.exhaustive = True


@st.composite
def _uniform_case(draw):
    P = draw(S.pdag(6, 8, max_undirected=9, weights=(4, 2, 2)))
    if draw(st.integers(0, 2)) == 0:
        P = draw(S.embedded(draw(S.pdag(3, 6, max_undirected=8, weights=(2, 3, 3)))))
    elif draw(st.integers(0, 4)) == 0:
        P = draw(S.disjoint_union(S.pdag(2, 3, weights=(1, 2, 4)), 3, 4))
    elif draw(st.integers(0, 3)) == 0:
        P = draw(S.chordal_undirected())           # cliques chained through shared or bridge nodes, no directed edge at all
    return {"sub": "pdag_hyp", "P": P, "dtype": draw(st.sampled_from(DTYPE_NAMES + ["weighted"])), "salt": draw(st.integers(0, 7)),
            "alldags": draw(st.integers(0, 5)) == 0, "debug": draw(st.integers(0, 7)) == 0}


@st.composite
def _meek_case(draw):
    A = draw(S.dag_pattern(5, 8, shapes=("random", "dense", "collider", "complete", "chain")))
    D = G.rows_from_lists(A)
    # keep brute force affordable
    edges = [(i, j) for i in range(len(D)) for j in G.bits(D[i])]
    if len(edges) > 12:
        drop = draw(st.lists(st.sampled_from(edges), min_size=len(edges) - 12, max_size=len(edges) - 12, unique=True))
        D = list(D)
        for (i, j) in drop:
            D[i] &= ~(1 << j)
        D = tuple(D)
    base = draw(st.sampled_from(["pattern", "pattern", "cpdag"]))
    if base == "cpdag":
        cp = list(G.cpdag_reference(D))
    else:                              # skeleton + v-structures only: the closure still has to be computed
        cp = list(G.skeleton(D))
        for (i, c, j) in G.vstructures(D):
            cp[c] &= ~(1 << i)
            cp[c] &= ~(1 << j)
    d, u = G.split(tuple(cp))
    rev = [(i, j) for i in range(len(D)) for j in G.bits(D[i]) if u[i] >> j & 1]
    if rev:
        lo = 1 if base == "cpdag" else 0
        chosen = draw(st.lists(st.sampled_from(rev), min_size=min(lo, len(rev)), max_size=min(3, len(rev)), unique=True))
        for (i, j) in chosen:          # orient i -> j as in the DAG (background knowledge)
            cp[j] &= ~(1 << i)
    return {"sub": "pdag_meek", "P": G.lists_from_rows(tuple(cp)), "dtype": draw(st.sampled_from(DTYPE_NAMES + ["weighted", "weighted"])),
            "salt": draw(st.integers(0, 7)), "alldags": draw(st.integers(0, 5)) == 0, "debug": draw(st.integers(0, 5)) == 0}


GADGETS = [(16, 16), (8, 32), (32, 8), (4, 64), (2, 3), (3, 5), (16, 32), (1, 1), (16, 15), (64, 4)]


def plan(tier, seed):
    jobs = []
    for n, (nh, nk) in enumerate(GADGETS if tier == "thorough" else GADGETS[:7]):
        jobs.append({"sub": "gadget", "seed": seed, "nh": nh, "nk": nk, "index": n, "cost": 40})
    for n, (p, miss) in enumerate([(470, [[1, 2]])] + ([(500, [[3, 9], [9, 20]]), (330, [[0, 5]])] if tier == "thorough" else [])):
        jobs.append({"sub": "big_clique", "seed": seed, "p": p, "missing": miss, "cost": 90})
    for p in (1, 2, 3):
        jobs.append({"sub": "pdag_exh", "p": p, "shard": 0, "nshards": 1, "seed": seed, "cost": 1})
    for k in range(16):
        jobs.append({"sub": "pdag_exh", "p": 4, "shard": k, "nshards": 16, "seed": seed, "cost": 6})
    if tier == "thorough":
        for k in range(128):
            jobs.append({"sub": "pdag_exh", "p": 5, "shard": k, "nshards": 128, "seed": seed, "cost": 60})
    n1 = scaled(1280 if tier == "quick" else 20000)
    n2 = scaled(1600 if tier == "quick" else 30000)
    shards = 16 if tier == "quick" else 32
    for k in range(shards):
        jobs.append({"sub": "pdag_hyp", "seed": seed, "shard": k, "n": max(1, n1 // shards), "cost": 8})
        jobs.append({"sub": "pdag_meek", "seed": seed, "shard": k, "salt": 1, "n": max(1, n2 // shards), "cost": 8})
    return jobs


def run(job):
    acc = Acc(job["sub"])
    if job["sub"] in ("gadget", "big_clique"):
        if job["sub"] == "gadget":
            p = job["nh"] + job["nk"] + 2
            mult = next(x for x in range(p // 3 + job["seed"] % 5 + 1, p + 2) if np.gcd(x, p) == 1)
            case = {"sub": "gadget", "nh": job["nh"], "nk": job["nk"], "mult": int(mult), "dtype": ["int", "float", "uint8"][job["index"] % 3]}
        else:
            case = {"sub": "big_clique", "p": job["p"], "missing": job["missing"]}
        try:
            acc.record(case, check(case), True, by_construction=True)
        except Violation as v:
            acc.record(case, [], False)
            acc.violation(case, v)
        acc.exhaustive = False
        return acc
    if job["sub"] == "pdag_exh":
        _run_exh(acc, job)
    elif job["sub"] == "pdag_hyp":
        run_property(acc, _uniform_case(), check, _nontrivial, job["n"], job_seed(job))
        acc.exhaustive = False
    else:
        run_property(acc, _meek_case(), check, _nontrivial, job["n"], job_seed(job))
        acc.exhaustive = False
    return acc


def selfcheck():
    G.selfcheck()


LEVEL_TEXT = ("Exploration, exhaustive up to 4 nodes in the quick tier and 5 nodes (765,664 PDAGs) in the thorough tier: "
              "pdag_to_dag / has_consistent_extension / maximally_orient are judged against the brute-force set of consistent "
              "extensions (membership, emptiness, union graph, and all_dags of the result); 6-8 nodes sampled with generators "
              "biased towards configurations where Meek rules 2-4 fire, whose frequency is measured and reported.")
LEVEL_NOTE = ("Trusted: brute-force extension enumeration in /verif/harness/graphs.py and Meek's completeness theorem (used only to "
              "identify the expected maximally oriented graph with the union graph of the extensions).")
TECHNIQUE = "exhaustive enumeration of PDAGs + Hypothesis (Meek-biased) vs. brute-force extension-set oracle"
DESIGN_REF = "DESIGN.md section 4, C09"
