"""C08 - the CPDAG is the essential graph of the Markov equivalence class."""
import numpy as np
from hypothesis import strategies as st

from harness import graphs as G
from harness import strategies as S
from harness.core import Acc, HarnessError, Violation, lib, must, must_raise
from harness.hyp import job_seed, run_property, scaled
from props.gcommon import DTYPE_NAMES, compare_sets, pdag_codes, result_set, signed_copy, spoil, to_np

PROP = "C08"
RULE = ("dag_to_cpdag on every DAG with p<=5 (29,281 DAGs / 8,782 classes; 0/1 int, float and signed-weight presentation), "
        "all_dags(cpdag) == class on every DAG p<=4 and a slice of p=5, pdag_to_cpdag on every PDAG with acyclic directed part "
        "p<=4 (quick) / p=5 (thorough), Hypothesis DAGs p=6..9. Oracle: union graph of the brute-force class (i->j directed "
        "iff every member has i->j); for DAGs with >13 edges the reference algorithm (pattern + Meek closure), itself "
        "compared with brute force whenever both are computed. Non-trivial = class has >=2 members and the CPDAG has a "
        "compelled edge outside every v-structure, or the PDAG has no extension (ValueError expected). Distinct = input graph. Also: relabelled graphs, uint8/bool/int32/float32 presentations, tiny weights, returned matrices overwritten after use.")
ASSUMPTIONS = [
    "oracle: union graph of the brute-force class (harness/graphs.py); reference Meek closure only beyond 13 edges, validated against brute force",
    "entries are compared as non-zero patterns; dtype free",
    "p>=6 sampled",
]


def _class_and_union(D):
    p = len(D)
    if p <= 5:
        members = G.mec_table(D)
        return members, G.union_graph(members)
    nedges = sum(bin(r).count("1") for r in D)
    if nedges <= 13:
        members = G.mec_bruteforce(D)
        ug = G.union_graph(members)
        if G.cpdag_reference(D) != ug:
            raise HarnessError("reference CPDAG disagrees with brute force on %r" % (D,))
        return members, ug
    return None, G.cpdag_reference(D)


def _cpdag_labels(D, members, ug):
    lab = []
    n = len(members) if members is not None else (2 if any(G.split(ug)[1]) else 1)
    if n >= 2:
        lab.append("multi")
    d, u = G.split(ug)
    vs = G.vstructures(D)
    vedges = {(i, c) for (i, c, j) in vs} | {(j, c) for (i, c, j) in vs}
    compelled = {(i, j) for i in range(len(D)) for j in G.bits(d[i])}
    if compelled - vedges:
        lab.append("propagated")
    if n >= 2 and compelled - vedges:
        lab.append("nt")
    if vs:
        lab.append("has_v")
    return lab


def _nontrivial(case, labels):
    return "nt" in labels or "no_extension" in labels


def check(case):
    import sempler.utils as utils
    sub = case["sub"]
    if sub in ("cpdag_exh", "cpdag_hyp"):
        D = G.rows_from_lists(case["A"])
        p = len(D)
        members, ug = _class_and_union(D)
        lab = _cpdag_labels(D, members, ug)
        for var in case.get("variants", ["int"]):
            if var == "weighted":
                A = signed_copy(D, case.get("salt", 0))
            else:
                A = to_np(D, var)
            keep = A.copy()
            res = np.asarray(must(lib(utils.dag_to_cpdag, A), "dag_to_cpdag[%s]" % var))
            if res.shape != (p, p):
                raise Violation("bad_shape", "dag_to_cpdag returned shape %r" % (res.shape,))
            if G.rows_from_matrix(res) != ug:
                raise Violation("cpdag_wrong", "dag_to_cpdag[%s](%s) = %s, essential graph is %s"
                                % (var, case["A"], res.astype(int).tolist(), G.lists_from_rows(ug)))
            spoil(res)
            if not (A == keep).all():
                raise Violation("input_modified", "dag_to_cpdag modified its argument")
            lab.append("var_" + var)
        if case.get("alldags") and members is not None:
            res = must(lib(utils.all_dags, to_np(ug)), "all_dags(cpdag)")
            got, n = result_set(res, p, "all_dags(cpdag)")
            compare_sets(got, n, members, "all_dags(dag_to_cpdag(A))", "A=%s" % case["A"])
            lab.append("alldags")
        return lab
    if sub in ("p2c_exh", "p2c_hyp"):
        P = G.rows_from_lists(case["P"])
        p = len(P)
        E = G.extensions_table(P) if p <= 5 else G.extensions_bruteforce(P)
        A = to_np(P, case.get("dtype", "int"))
        keep = A.copy()
        o = lib(utils.pdag_to_cpdag, A)
        if not E:
            must_raise(o, ValueError, "pdag_to_cpdag(no extension)")
            return ["no_extension"]
        res = np.asarray(must(o, "pdag_to_cpdag"))
        any_member = min(E)
        members, ug = _class_and_union(any_member)
        if G.rows_from_matrix(res) != ug:
            raise Violation("p2c_wrong", "pdag_to_cpdag(%s) = %s, essential graph of its extensions' class is %s"
                            % (case["P"], res.astype(int).tolist(), G.lists_from_rows(ug)))
        spoil(res)
        if not (A == keep).all():
            raise Violation("input_modified", "pdag_to_cpdag modified its argument")
        return _cpdag_labels(any_member, members, ug) + ["has_extension"]
    raise ValueError(sub)


def _run_cpdag_exh(acc, job):
    dags = G.all_dags(job["p"])
    for k, D in enumerate(dags):
        if k % job["nshards"] != job["shard"]:
            continue
        case = {"sub": "cpdag_exh", "A": G.lists_from_rows(D), "variants": [["int"], ["float"], ["weighted"], ["uint8"], ["bool"], ["int32"], ["float32"]][k % 7] + (["weighted"] if k % 5 == 0 else []),
                "salt": k, "alldags": job["p"] <= 4 or k % job.get("alldags_every", 50) == 0}
        try:
            lab = check(case)
            acc.record(case, lab, _nontrivial(case, lab), by_construction=True, sample=(k % 1999 == 11))
        except Violation as v:
            acc.record(case, [], False)
            acc.violation(case, v)
    acc.exhaustive = True


def _run_p2c_exh(acc, job):
    for k, (code, P) in enumerate(pdag_codes(job["p"])):
        if k % job["nshards"] != job["shard"]:
            continue
        case = {"sub": "p2c_exh", "P": G.lists_from_rows(P), "dtype": DTYPE_NAMES[code % 6]}
        try:
            lab = check(case)
            acc.record(case, lab, _nontrivial(case, lab), by_construction=True, sample=(code % 1499 == 3))
        except Violation as v:
            acc.record(case, [], False)
            acc.violation(case, v)
    acc.exhaustive = True


@st.composite
def _cpdag_case(draw):
    A = draw(S.dag_pattern(6, 9, shapes=("random", "sparse", "dense", "collider", "chain")))
    if draw(st.integers(0, 2)) == 0:
        A = draw(S.embedded(draw(S.dag_pattern(3, 6, shapes=("random", "dense", "collider", "complete")))))
    elif draw(st.integers(0, 4)) == 0:
        A = draw(S.disjoint_union(S.dag_pattern(2, 4, shapes=("random", "chain", "collider", "complete")), 3, 4))
    return {"sub": "cpdag_hyp", "A": A, "variants": draw(st.sampled_from([["int"], ["float"], ["weighted"], ["uint8"], ["bool"], ["float32"]])),
            "salt": draw(st.integers(0, 7))}


@st.composite
def _p2c_case(draw):
    P = draw(S.pdag(6, 7, max_undirected=8, weights=(4, 2, 2)))
    if draw(st.integers(0, 2)) == 0:
        P = draw(S.embedded(draw(S.pdag(3, 6, max_undirected=8, weights=(2, 3, 3)))))
    elif draw(st.integers(0, 4)) == 0:
        P = draw(S.disjoint_union(S.pdag(2, 3, weights=(1, 2, 4)), 3, 4))
    return {"sub": "p2c_hyp", "P": P, "dtype": draw(st.sampled_from(DTYPE_NAMES))}


def plan(tier, seed):
    jobs = []
    for p in (1, 2, 3, 4):
        jobs.append({"sub": "cpdag_exh", "p": p, "shard": 0, "nshards": 1, "seed": seed, "cost": 3})
        jobs.append({"sub": "p2c_exh", "p": p, "shard": 0, "nshards": 1 if p < 4 else 1, "seed": seed, "cost": 4})
    ns = 32
    for k in range(ns):
        jobs.append({"sub": "cpdag_exh", "p": 5, "shard": k, "nshards": ns, "seed": seed, "cost": 8,
                     "alldags_every": 60 if tier == "quick" else 6})
    if tier == "thorough":
        for k in range(128):
            jobs.append({"sub": "p2c_exh", "p": 5, "shard": k, "nshards": 128, "seed": seed, "cost": 50})
    for k, (pb, fam) in enumerate([(270, "tree"), (300, "tree_plus"), (290, "band"), (257, "tree_plus"), (132, "hubs"), (203, "hubs")] +
                                  ([(400, "tree_plus"), (520, "band")] if tier == "thorough" else [])):
        jobs.append({"sub": "cpdag_big", "seed": seed, "p": pb, "family": fam, "index": k, "cost": 12})
    jobs.append({"sub": "cpdag_long", "seed": seed, "p": 1040 + seed % 7, "cost": 30})
    n1 = scaled(640 if tier == "quick" else 20000)
    n2 = scaled(320 if tier == "quick" else 8000)
    shards = 16 if tier == "quick" else 32
    for k in range(shards):
        jobs.append({"sub": "cpdag_hyp", "seed": seed, "shard": k, "n": max(1, n1 // shards), "cost": 6})
        jobs.append({"sub": "p2c_hyp", "seed": seed, "shard": k, "salt": 1, "n": max(1, n2 // shards), "cost": 6})
    return jobs


def run(job):
    acc = Acc(job["sub"])
    if job["sub"] == "cpdag_exh":
        _run_cpdag_exh(acc, job)
    elif job["sub"] == "p2c_exh":
        _run_p2c_exh(acc, job)
    elif job["sub"] == "cpdag_long":
        # a directed path through more than 1000 nodes that runs AGAINST the node numbering (k -> k-1): no v-structure, so
        # the essential graph is the undirected path (known without any oracle); deep graphs break recursive traversals
        import sempler.utils as utils
        pl = job["p"]
        A = np.zeros((pl, pl), dtype=int)
        for k in range(1, pl):
            A[k, k - 1] = 1
        case = {"sub": "cpdag_long", "p": pl}
        try:
            res = np.asarray(must(lib(utils.dag_to_cpdag, A), "dag_to_cpdag(path %d -> ... -> 0)" % (pl - 1)))
            if res.shape != (pl, pl) or not np.array_equal(res != 0, (A != 0) | (A.T != 0)):
                raise Violation("cpdag_wrong", "dag_to_cpdag of the directed path %d -> ... -> 1 -> 0 is not the undirected path (%d directed, "
                                "%d undirected edges returned)" % (pl - 1, int(((res != 0) & (res.T == 0)).sum()), int(((res != 0) & (res.T != 0)).sum() // 2)))
            acc.record(case, ["long_reversed_path"], True, by_construction=True)
        except Violation as v:
            acc.record(case, [], False)
            acc.violation(case, v)
        acc.exhaustive = False
    elif job["sub"] == "cpdag_big":
        # sparse graphs on more than 256 nodes (trees, trees with a few colliders, bands), labels scrambled: most edges are
        # reversible, so any mis-ordering of the edges shows as a wrongly compelled edge
        import math
        pb, fam = job["p"], job["family"]
        a = next(x for x in range(11 + job["seed"] % 9, 11 + job["seed"] % 9 + 4 * pb) if math.gcd(x, pb) == 1)
        lab = [(a * k + 5) % pb for k in range(pb)]
        A = [[0] * pb for _ in range(pb)]
        if fam == "hubs":
            # two (three) non-adjacent hubs with pb-2 (pb-3) common children, one extra edge below
            nh = 2 if pb < 200 else 3
            for h in range(nh):
                for c in range(nh, pb):
                    A[lab[h]][lab[c]] = 1
            A[lab[nh]][lab[nh + 1]] = 1
        for k in range(1, pb if fam != "hubs" else 0):
            if fam in ("tree", "tree_plus"):
                A[lab[max(0, k - 1 - (k % 3))]][lab[k]] = 1
                if fam == "tree_plus" and k % 17 == 0 and k >= 9:
                    A[lab[k - 9]][lab[k]] = 1                      # a second, non-adjacent parent: a v-structure
            else:
                for d in (1, 2):
                    if k - d >= 0 and (k + d) % 5:
                        A[lab[k - d]][lab[k]] = 1
        case = {"sub": "cpdag_hyp", "A": A, "variants": ["int", "weighted"][job["index"] % 2:][:1], "salt": job["index"]}
        try:
            lab_ = check(case)
            acc.record({"sub": "cpdag_big", "p": pb, "family": fam, "a": a}, lab_ + ["p_gt_256"], True, by_construction=True)
        except Violation as v:
            acc.record({"sub": "cpdag_big", "p": pb, "family": fam, "a": a}, [], False)
            acc.violation(case, v)
        acc.exhaustive = False
    elif job["sub"] == "cpdag_hyp":
        run_property(acc, _cpdag_case(), check, _nontrivial, job["n"], job_seed(job))
        acc.exhaustive = False
    elif job["sub"] == "p2c_hyp":
        run_property(acc, _p2c_case(), check, _nontrivial, job["n"], job_seed(job))
        acc.exhaustive = False
    return acc


def selfcheck():
    G.selfcheck()


LEVEL_TEXT = ("Exploration, exhaustive up to 5 nodes: dag_to_cpdag is compared entry-wise with the union graph of the brute-force "
              "equivalence class for all 29,281 DAGs on <=5 nodes (which also gives class-invariance), all_dags(cpdag) with the "
              "class, and pdag_to_cpdag with the essential graph of the extensions' class (ValueError iff none) for every PDAG on "
              "<=4 nodes (quick) / 5 nodes (thorough); 6-9 nodes are sampled with Hypothesis.")
LEVEL_NOTE = ("Trusted: brute-force class enumeration in /verif/harness/graphs.py; the reference Meek closure is only used beyond 13 "
              "edges and is cross-checked against brute force at start-up and whenever both are available.")
TECHNIQUE = "exhaustive enumeration of DAGs/PDAGs <=5 nodes + Hypothesis vs. brute-force essential-graph oracle"
DESIGN_REF = "DESIGN.md section 4, C08"
