"""C01 - the LGANM population law equals the intervened structural equations."""
from fractions import Fraction

import numpy as np
from hypothesis import strategies as st

from harness import exact as X
from harness import strategies as S
from harness.core import Acc, Violation, fr, fstr, lib, must
from harness.hyp import job_seed, run_property, scaled

PROP = "C01"
EPS = 2.0 ** -52
KAPPA_MAX = 1e8
RULE = ("Hypothesis: signed DAG weight matrices (unit, small-int, dyadic, mixed-magnitude, column-cancelling and "
        "path-cancelling classes; p<=8 quick, <=12 thorough), dyadic noise means and variances >= 0, every array "
        "independently int64 or float64 when integral, W also as nested list / Python scalar; every variable independently "
        "assigned one of {none, do, noise, shift, do+noise, do+shift, noise+shift, all three} with tuple or scalar "
        "parameters (integral and fractional, variance possibly 0), interventions passed as dict / {} / None / omitted. "
        "Oracle: exact Fraction solution of the intervened equations (do > noise > shift, do cuts incoming edges, scalar = "
        "point mass) compared entry-wise under a condition-scaled bound 100*eps*p*kappa*|M|*|mu| resp. |M|^2*|D| "
        "(kappa = cond_inf(I - W'^T) from the exact inverse; kappa > 1e8 discarded and counted). Separately (lo, hi) range "
        "constructors: means/variances of shape (p,), inside [lo, hi], one draw per variable. Non-trivial = at least one "
        "intervention and (an overlap on a target, or a non-source target, or a negative weight, or an int-typed array "
        "receiving a fractional parameter). Distinct = distinct case (model + interventions + presentation).")
ASSUMPTIONS = [
    "oracle: exact rational solution of X = W'^T X + eps computed by /verif/harness/exact.py (Gauss-Jordan over Fractions)",
    "'to floating-point accuracy' = norm-wise, condition-scaled bound; models with cond_inf(I - W^T) > 1e8 are discarded, not failed",
    "numpy scalar objects as bare intervention parameters are outside the documented forms and not generated",
    "all generated parameters are dyadic rationals, i.e. exactly representable doubles",
]


def _num(x, force_float=False):
    x = fr(x)
    if x.denominator == 1 and not force_float:
        return int(x)
    return float(x)


def _arr(vals, dtype, shape=None):
    from props.gcommon import relayout            # values as asked, memory layout varied (C / Fortran / strided view)
    vals = [fr(v) for v in vals]
    if dtype == "int":
        a = np.array([int(v) for v in vals], dtype=np.int64)
    elif dtype in ("uint8", "int32", "float32"):
        a = np.array([float(v) for v in vals]).astype({"uint8": np.uint8, "int32": np.int32, "float32": np.float32}[dtype])
    else:
        a = np.array([float(v) for v in vals], dtype=float)
    return relayout(a.reshape(shape) if shape is not None else a)


def _interventions(spec, present):
    """JSON spec {"3": ["1/2", 2] | "1/2"} -> what is handed to the library."""
    if present == "none":
        return None
    if present == "empty" or not spec:
        return {}
    out = {}
    for k, v in spec.items():
        if isinstance(v, list):
            out[int(k)] = (_num(v[0], v[2] if len(v) > 2 else False), _num(v[1], v[2] if len(v) > 2 else False))
        else:
            out[int(k)] = _num(v)
    return out


def _param(v):
    """(mean, variance) as Fractions; a scalar means a point mass."""
    if isinstance(v, list):
        return fr(v[0]), fr(v[1])
    return fr(v), Fraction(0)


def exact_law(case):
    """Exact mean / covariance of the solution of the intervened equations, plus norms."""
    W = X.mat([[fr(x) for x in row] for row in case["W"]])
    p = len(W)
    mu = [fr(x) for x in case["means"]]
    D = [fr(x) for x in case["variances"]]
    do, noise, shift = case.get("do", {}), case.get("noise", {}), case.get("shift", {})
    for t in range(p):
        k = str(t)
        if k in do:
            m, v = _param(do[k])
            mu[t], D[t] = m, v
            for i in range(p):
                W[i][t] = Fraction(0)
        elif k in noise:
            m, v = _param(noise[k])
            mu[t], D[t] = m, v
        elif k in shift:
            m, v = _param(shift[k])
            mu[t], D[t] = mu[t] + m, D[t] + v
    IW = X.sub(X.eye(p), X.T(W))
    M = X.inv(IW)
    mean = X.mv(M, mu)
    cov = X.mm(X.mm(M, X.diag(D)), X.T(M))
    return {"W": W, "mu": mu, "D": D, "M": M, "mean": mean, "cov": cov,
            "kappa": float(X.norm_inf(IW) * X.norm_inf(M)), "normM": float(X.norm_inf(M)),
            "normmu": float(X.vnorm_inf(mu)), "normD": float(X.vnorm_inf(D))}


def _labels(case, law):
    p = len(case["W"])
    lab = []
    W = [[fr(x) for x in row] for row in case["W"]]
    do, noise, shift = case.get("do", {}), case.get("noise", {}), case.get("shift", {})
    targets = set(do) | set(noise) | set(shift)
    if targets:
        lab.append("intervened")
    if any(x < 0 for r in W for x in r):
        lab.append("neg_weight")
    for t in targets:
        n = (t in do) + (t in noise) + (t in shift)
        if n >= 2:
            lab.append("overlap")
            lab.append("overlap_" + "+".join(nm for nm, d in (("do", do), ("noise", noise), ("shift", shift)) if t in d))
        if any(W[i][int(t)] != 0 for i in range(p)):
            lab.append("nonsource_target")
    dt = case.get("dtypes", {})
    for nm, d in (("do", do), ("noise", noise), ("shift", shift)):
        for t, v in d.items():
            m, var = _param(v)
            if (dt.get("means") == "int" and m.denominator != 1) or (dt.get("variances") == "int" and var.denominator != 1):
                lab.append("int_array_fractional_param")
            if not isinstance(v, list):
                lab.append("scalar_param")
            if var == 0:
                lab.append("point_mass")
    for k in ("W", "means", "variances"):
        if dt.get(k) == "int":
            lab.append("int_" + k)
    lab.append("wclass_" + case.get("wclass", "?"))
    if len(case["W"]) > 64:
        lab.append("big_model")
    if len(case.get("followups", [])) >= 2:
        lab.append("followup_calls")
    for nm in ("do", "noise", "shift"):
        lab.append("%s_as_%s" % (nm, case.get("present", {}).get(nm, "dict")))
    return sorted(set(lab))


def _nontrivial(case, labels):
    return "intervened" in labels and any(l in labels for l in ("overlap", "nonsource_target", "neg_weight", "int_array_fractional_param", "big_model"))


def check(case):
    if case["sub"] == "ranges":
        return _check_ranges(case)
    import sempler
    law = exact_law(case)
    p = len(case["W"])
    if law["kappa"] > KAPPA_MAX:
        return ["discard_illconditioned"]
    dt = case.get("dtypes", {})
    Wf = case.get("Wform", "array")
    Warr = _arr([x for row in case["W"] for x in row], dt.get("W", "float"), (p, p))
    if Wf == "list":
        Wgiven = Warr.tolist()
    elif Wf == "scalar" and p == 1:
        Wgiven = Warr.tolist()[0][0]
    else:
        Wgiven = Warr
    means = _arr(case["means"], dt.get("means", "float"))
    variances = _arr(case["variances"], dt.get("variances", "float"))
    keep = (Warr.copy(), means.copy(), variances.copy())
    model = must(lib(sempler.LGANM, Wgiven, means, variances), "LGANM(...)")
    kwargs = {}
    pres = case.get("present", {})
    for nm, key in (("do", "do_interventions"), ("noise", "noise_interventions"), ("shift", "shift_interventions")):
        how = pres.get(nm, "dict")
        if how == "omit" and not case.get(nm):
            continue
        kwargs[key] = _interventions(case.get(nm, {}), how)
    ctx = "W=%s means=%s variances=%s dtypes=%s do=%s noise=%s shift=%s" % (
        case["W"] if p <= 12 else "<%dx%d>" % (p, p), case["means"], case["variances"], dt, case.get("do"), case.get("noise"), case.get("shift"))
    _compare_call(model, law, kwargs, p, "mean_wrong", "cov_wrong", ctx)
    # the caller keeps its dictionaries and passes the very same objects again, one intervention type at a time
    for nm, key in (("noise", "noise_interventions"), ("shift", "shift_interventions"), ("do", "do_interventions")):
        if isinstance(kwargs.get(key), dict) and kwargs[key] and len([k for k in kwargs if kwargs[k]]) >= 2:
            alone = dict(case, do={}, noise={}, shift={})
            alone[nm] = case.get(nm, {})
            law_a = exact_law(alone)
            if law_a["kappa"] <= KAPPA_MAX:
                _compare_call(model, law_a, {key: kwargs[key]}, p, "caller_dict_reused", "caller_dict_reused",
                              "second call passing only the caller's own %s dict object %r again (first call: %r); %s" % (nm, kwargs[key], sorted(kwargs), ctx))
    # further calls on the SAME model (by default an observational one): the law of each call must be the law of
    # its own interventions, whatever was asked before
    for k, spec in enumerate(case.get("followups", [{}])):
        nxt = dict(case, do=spec.get("do", {}), noise=spec.get("noise", {}), shift=spec.get("shift", {}))
        law_k = exact_law(nxt)
        if law_k["kappa"] > KAPPA_MAX:
            continue
        kw = {}
        for nm, key in (("do", "do_interventions"), ("noise", "noise_interventions"), ("shift", "shift_interventions")):
            if spec.get(nm):
                kw[key] = _interventions(spec[nm], "dict")
        if (k + p) % 2 == 0 and p >= 2:
            # a copy of the model (shallow / deep / pickled, in turn) is used in between, with a do-intervention on a variable
            # this call does not touch; afterwards both objects must still answer with the law of what they are asked
            import copy
            import pickle
            how = (k + p) // 2 % 3
            mk = lib((lambda: copy.copy(model)) if how == 0 else (lambda: copy.deepcopy(model)) if how == 1 else (lambda: pickle.loads(pickle.dumps(model))))
            if mk.ok:
                twin = mk.value
                free = [t for t in range(p) if str(t) not in spec.get("do", {})]
                t = free[k % len(free)] if free else 0
                lib(twin.sample, population=True, do_interventions={t: (7, 2)})
                _compare_call(model, law_k, kw, p, "law_depends_on_a_copy", "law_depends_on_a_copy",
                              "call %r on the model after a %s of it was sampled under do(%d); %s" % (kw, ["copy.copy", "copy.deepcopy", "pickle round trip"][how], t, ctx))
                _compare_call(twin, law_k, kw, p, "copy_law_wrong", "copy_law_wrong",
                              "call %r on a %s of the model; %s" % (kw, ["copy.copy", "copy.deepcopy", "pickle round trip"][how], ctx))
                continue
        _compare_call(model, law_k, kw, p, "law_depends_on_earlier_calls", "law_depends_on_earlier_calls",
                      "call #%d %r on the same model after %r; %s" % (k + 2, kw, kwargs, ctx))
    if not ((keep[0] == Warr).all() and (keep[1] == means).all() and (keep[2] == variances).all()):
        raise Violation("input_modified", "LGANM modified the caller's arrays; %s" % ctx)
    return _labels(case, law)


def _compare_call(model, law, kwargs, p, kind_mean, kind_cov, ctx):
    dist = must(lib(model.sample, population=True, **kwargs), "LGANM.sample(population=True, %r)" % (kwargs,))
    mean = np.asarray(dist.mean, dtype=float)
    cov = np.asarray(dist.covariance, dtype=float)
    if mean.shape != (p,) or cov.shape != (p, p):
        raise Violation("bad_shape", "population distribution has mean %r / covariance %r for p=%d" % (mean.shape, cov.shape, p))
    tol_mean = 100 * EPS * p * law["kappa"] * law["normM"] * law["normmu"] + 1e-300
    tol_cov = 100 * EPS * p * law["kappa"] * law["normM"] ** 2 * law["normD"] + 1e-300
    want_mean = np.array(X.vto_float(law["mean"]))
    want_cov = np.array(X.to_float(law["cov"])).reshape(p, p)
    em = np.abs(mean - want_mean).max()
    ec = np.abs(cov - want_cov).max()
    show = (lambda a: a.tolist()) if p <= 12 else (lambda a: "<array, worst entry %s>" % (np.unravel_index(np.argmax(np.abs(a)), a.shape),))
    if not (em <= tol_mean):
        raise Violation(kind_mean, "mean %s vs exact %s (err %.3g > tol %.3g); %s" % (show(mean), show(want_mean), em, tol_mean, ctx))
    if not (ec <= tol_cov):
        raise Violation(kind_cov, "covariance %s vs exact %s (err %.3g > tol %.3g); %s" % (show(cov), show(want_cov), ec, tol_cov, ctx))


def _check_ranges(case):
    import sempler
    p = case["p"]
    W = np.zeros((p, p))
    for i in range(p - 1):
        W[i, i + 1] = 1.0 if i % 2 == 0 else -0.5
    mlo, mhi = _num(case["means"][0]), _num(case["means"][1])
    vlo, vhi = _num(case["variances"][0]), _num(case["variances"][1])
    m = must(lib(sempler.LGANM, W, (mlo, mhi), (vlo, vhi), random_state=case["seed"]), "LGANM(ranges)")
    lab = []
    for name, arr, lo, hi in (("means", m.means, mlo, mhi), ("variances", m.variances, vlo, vhi)):
        arr = np.asarray(arr)
        if arr.shape != (p,):
            raise Violation("range_shape", "%s has shape %r for p=%d" % (name, arr.shape, p))
        if not ((arr >= lo).all() and (arr <= hi).all()):
            raise Violation("range_outside", "%s %s outside [%r, %r]" % (name, arr.tolist(), lo, hi))
        if lo < hi and p >= 3 and len(set(arr.tolist())) == 1:
            raise Violation("range_single_draw", "%s %s: one value for all variables" % (name, arr.tolist()))
        if lo < hi:
            lab.append("proper_range")
        else:
            lab.append("degenerate_range")
    return lab + ["ranges"]


# ------------------------------------------------------------------------ generators

def _dy(max_abs=8, den=8, lo=None):
    lo = -max_abs * den if lo is None else lo
    return st.integers(lo, max_abs * den).map(lambda k: Fraction(k, den))


@st.composite
def _param_strategy(draw, integral):
    if integral:
        m = Fraction(draw(st.integers(-6, 6)))
        v = Fraction(draw(st.integers(0, 5)))
    else:
        m = draw(_dy(8, 8))
        v = draw(_dy(6, 8, lo=0))
    form = draw(st.sampled_from(["tuple", "tuple", "tuple", "scalar", "tuple_float"]))
    if form == "scalar":
        return fstr(m)
    return [fstr(m), fstr(v)] + ([True] if form == "tuple_float" else [])


@st.composite
def law_case(draw, p_max, huge=True):
    src = draw(st.sampled_from(["weighted"] * 5 + ["faithless"]))
    if src == "faithless":
        W = draw(S.faithless_dag(3, min(7, max(3, p_max))))
        cls = "faithless"
    else:
        W, cls = draw(S.weighted_dag(1, p_max))
    p = len(W)
    integral_model = draw(st.booleans())
    if integral_model:
        means = [fstr(Fraction(draw(st.integers(-5, 5)))) for _ in range(p)]
        variances = [fstr(Fraction(draw(st.integers(0, 4)))) for _ in range(p)]
    else:
        means = [fstr(draw(_dy(6, 8))) for _ in range(p)]
        variances = [fstr(draw(_dy(5, 8, lo=0))) for _ in range(p)]
    if huge and draw(st.integers(0, 7)) == 0:
        # model parameters many orders of magnitude above the intervention parameters; with every variable intervened the
        # intervened law has ordinary magnitudes again (and a tight tolerance)
        big = draw(st.sampled_from([2 ** 57, 2 ** 40, 10 ** 17]))
        means = [fstr(fr(m) * big) for m in means]
        variances = [fstr(fr(v) * big) for v in variances]
        integral_model = integral_model and big != 10 ** 17 or integral_model
    dtypes = {}
    Wint = all(fr(x).denominator == 1 for r in W for x in r)
    Wsmall = Wint and all(0 <= fr(x) <= 255 for r in W for x in r)
    dtypes["W"] = draw(st.sampled_from(["int", "float"] + (["uint8", "int32"] if Wsmall else ["int32"]))) if Wint else "float"
    dtypes["means"] = draw(st.sampled_from(["int", "float"])) if integral_model else "float"
    dtypes["variances"] = draw(st.sampled_from(["int", "float"])) if integral_model else "float"
    # intervention assignment: one of the 8 overlap classes per variable
    n_int = draw(st.sampled_from([0, 1, 1, 2, 2, 3, p, p]))
    tg = draw(st.lists(st.integers(0, p - 1), min_size=min(n_int, p), max_size=min(n_int, p), unique=True))
    do, noise, shift = {}, {}, {}
    for t in tg:
        cls_t = draw(st.sampled_from(["do", "noise", "shift", "do+noise", "do+shift", "noise+shift", "do+noise+shift"]))
        integral_param = draw(st.integers(0, 3)) == 0
        if "do" in cls_t:
            do[str(t)] = draw(_param_strategy(integral_param))
        if "noise" in cls_t:
            noise[str(t)] = draw(_param_strategy(integral_param))
        if "shift" in cls_t:
            shift[str(t)] = draw(_param_strategy(integral_param))
    if tg and draw(st.integers(0, 5)) == 0:
        # an intervention that restates the node's own noise law (the law changes only through the cut edges)
        t = tg[0]
        which = draw(st.sampled_from(["do", "noise"]))
        (do if which == "do" else noise)[str(t)] = [means[t], variances[t]]
    followups = [{}]
    if tg and draw(st.integers(0, 4)) == 0:
        # the same call again with one mean moved from -1 to -2 (or 0 to a huge multiple of 2^61-1 ...): parameter values
        # that differ but share Python's hash
        t = str(tg[0])
        nm = "do" if t in do else "noise" if t in noise else "shift"
        d0 = {"do": do, "noise": noise, "shift": shift}[nm]
        pair = draw(st.sampled_from([(-1, -2), (-2, -1), (0, 2 ** 61 - 1), (1, 2 ** 61)] if huge else [(-1, -2), (-2, -1)]))
        var = d0[t][1] if isinstance(d0[t], list) else None
        d0[t] = [pair[0], var] if var is not None else pair[0]
        twin = {k: dict(v) for k, v in (("do", do), ("noise", noise), ("shift", shift))}
        twin[nm][t] = [pair[1], var] if var is not None else pair[1]
        followups = [twin, {}]
    elif tg and draw(st.booleans()):
        # the same parameters under another intervention type, then observational again
        t = str(tg[0])
        src = do[t] if t in do else noise[t] if t in noise else shift[t]
        other = draw(st.sampled_from(["do", "noise", "shift"]))
        followups = [{other: {t: src}}, {}]
    present = {}
    for nm, d in (("do", do), ("noise", noise), ("shift", shift)):
        present[nm] = "dict" if d else draw(st.sampled_from(["omit", "empty", "none"]))
    wform = draw(st.sampled_from(["array", "array", "list"] + (["scalar"] if p == 1 else [])))
    return {"sub": "law", "W": W, "means": means, "variances": variances, "dtypes": dtypes, "do": do, "noise": noise,
            "shift": shift, "present": present, "Wform": wform, "wclass": cls, "followups": followups}


@st.composite
def big_case(draw):
    """Sparse models on 65..72 variables; several calls on the same model whose do-targets differ only in high labels."""
    p = draw(st.integers(65, 72))
    order = list(draw(st.permutations(list(range(p)))))
    W = [[0] * p for _ in range(p)]
    for b in range(1, p):
        k = draw(st.sampled_from([1, 2, 1, 0]))
        for a in draw(st.lists(st.integers(max(0, b - 6), b - 1), min_size=min(k, b), max_size=min(k, b), unique=True)):
            W[order[a]][order[b]] = fstr(draw(st.sampled_from([Fraction(1), Fraction(-1), Fraction(1, 2), Fraction(-3, 2)])))
    means = [draw(st.integers(-2, 2)) for _ in range(p)]
    variances = [draw(st.integers(1, 3)) for _ in range(p)]
    lo = draw(st.integers(0, 62))
    hi1, hi2 = draw(st.integers(64, p - 1)), draw(st.integers(64, p - 1))
    pos = {v: k for k, v in enumerate(order)}
    for h in (hi1, hi2):           # the high-labelled targets must have incoming edges for a do-intervention to matter
        if not any(W[i][h] != 0 for i in range(p)):
            src = order[pos[h] - 1] if pos[h] > 0 else None
            if src is None:        # h is first in the causal order: move it behind its successor instead
                order[0], order[1] = order[1], order[0]
                W = [[0] * p for _ in range(p)]
                for b in range(1, p):
                    W[order[b - 1]][order[b]] = 1
            else:
                W[src][h] = fstr(Fraction(-3, 2))
    par = lambda: [fstr(Fraction(draw(st.integers(-8, 8)), 4)), fstr(Fraction(draw(st.integers(1, 8)), 4))]
    first = {str(lo): par()}
    second = {str(lo): first[str(lo)], str(hi1): par()}
    return {"sub": "law_big", "W": W, "means": means, "variances": variances, "dtypes": {"W": "float", "means": "int", "variances": "int"},
            "do": first, "noise": {}, "shift": {}, "present": {"do": "dict", "noise": "omit", "shift": "omit"}, "Wform": "array",
            "wclass": "sparse_big", "followups": [{"do": second}, {}, {"do": {str(hi2): par()}}, {"noise": {str(hi2): par()}}]}


@st.composite
def ranges_case(draw):
    p = draw(st.integers(1, 9))
    def rng():
        lo = draw(_dy(6, 4))
        w = draw(st.sampled_from([Fraction(0), Fraction(1, 4), Fraction(1), Fraction(5)]))
        return [fstr(lo), fstr(lo + w)]
    mr = rng()
    vr_lo = draw(_dy(6, 4, lo=0))
    vr = [fstr(vr_lo), fstr(vr_lo + draw(st.sampled_from([Fraction(0), Fraction(1, 2), Fraction(3)])))]
    if draw(st.integers(0, 3)) == 0:
        vr = [fstr(abs(fr(mr[0]))), fstr(abs(fr(mr[0])) + (fr(mr[1]) - fr(mr[0])))]
        mr = list(vr)
    return {"sub": "ranges", "p": p, "means": mr, "variances": vr,
            "seed": draw(st.sampled_from([0, 1, 42]) | st.integers(0, 2 ** 32 - 1))}


def _law_check(case):
    lab = check(case)
    return lab


def plan(tier, seed):
    jobs = []
    n = scaled(12800 if tier == "quick" else 160000)
    shards = 16 if tier == "quick" else 64
    for k in range(shards):
        jobs.append({"sub": "law", "seed": seed, "shard": k, "n": max(1, n // shards), "p_max": 8 if tier == "quick" else 12, "cost": 10})
    nb = scaled(48 if tier == "quick" else 640)
    for k in range(16 if tier == "quick" else 32):
        jobs.append({"sub": "law_big", "seed": seed, "shard": k, "salt": 11, "n": max(1, nb // (16 if tier == "quick" else 32)), "cost": 30})
    nr = scaled(1600 if tier == "quick" else 20000)
    for k in range(4 if tier == "quick" else 16):
        jobs.append({"sub": "ranges", "seed": seed, "shard": k, "salt": 5, "n": max(1, nr // (4 if tier == "quick" else 16)), "cost": 2})
    return jobs


def run(job):
    acc = Acc(job["sub"])
    if job["sub"] == "law":
        run_property(acc, law_case(job["p_max"]), _law_check, _nontrivial, job["n"], job_seed(job))
        acc.discarded = acc.classes.get("discard_illconditioned", 0)
    elif job["sub"] == "law_big":
        run_property(acc, big_case(), _law_check, _nontrivial, job["n"], job_seed(job), shrink=False)
        acc.discarded = acc.classes.get("discard_illconditioned", 0)
    else:
        run_property(acc, ranges_case(), check, lambda c, l: "proper_range" in l and c["p"] >= 3, job["n"], job_seed(job))
    acc.exhaustive = False
    return acc


LEVEL_TEXT = ("Exploration: thousands (quick) to tens of thousands (thorough) of generated linear-Gaussian SCMs with signed, "
              "cancelling and path-cancelling weights, all eight overlap classes of do/noise/shift interventions, tuple and "
              "scalar parameters, int- and float-typed arrays and every way of passing 'no interventions' are compared with an "
              "exact rational solution of the intervened equations under a condition-scaled floating-point bound. This is the "
              "right level for a universally quantified numerical identity: an independent exact oracle, a generator aimed at "
              "the regions the suite never visits, and measured class frequencies.")
LEVEL_NOTE = ("Trusted: Fraction Gauss-Jordan in /verif/harness/exact.py and the checker's own reading of the intervention "
              "semantics stated in the property. Ill-conditioned models (kappa > 1e8) are discarded and counted.")
TECHNIQUE = "Hypothesis structured generation vs. exact rational-arithmetic reference model (condition-aware tolerance)"
DESIGN_REF = "DESIGN.md section 4, C01"
