"""C03 - the acyclicity test and the topological order are exact for any weights."""
import itertools
from fractions import Fraction

import numpy as np
from hypothesis import strategies as st

from harness import graphs as G
from harness import strategies as S
from harness.core import Acc, Violation, fr, lib, must, must_raise
from harness.hyp import job_seed, run_property, scaled

PROP = "C03"
RULE = ("Exhaustive: every matrix over {-1,0,1} for p=1..3 and every zero-diagonal 4x4 sign pattern; directed paths / cycles through 1100..2500 (thorough: 6000) scrambled nodes; "
        "generated: signed/cancelling DAG weights, DAG + back edges / two-cycles / self-loops whose cycle, column or "
        "total weight sums are <0, =0 or >0, and sparse arbitrary real matrices (p<=8 quick, <=14 thorough), int and "
        "float dtype. Oracle: 3-colour DFS on the non-zero pattern; is_dag must equal it, topological_ordering must "
        "return a permutation with every edge forward or raise ValueError iff cyclic, and LGANM / ANM / DRFNet "
        "constructors must raise ValueError iff cyclic. Non-trivial = some entry < 0, or a column / the total with "
        "edges present sums to <= 0. Distinct = distinct matrices (+dtype). Also: integer weights equal to the dtype minimum followed by the float matrix with the same bytes, relabelling into 13..70 nodes, tiny back edges.")
ASSUMPTIONS = [
    "oracle: independent 3-colour DFS over the non-zero pattern (harness/graphs.py), cross-checked against source peeling",
    "any valid topological order is accepted; element type of the ordering is free",
    "DRFNet gate exercised through the stand-in rpy2 backend in /verif/harness/fake_rpy2 (repository unmodified)",
    "sizes beyond p=4 and real-valued entries are sampled, not enumerated",
]


def _matrix(case):
    M = [[fr(x) for x in row] for row in case["M"]]
    from props.gcommon import relayout
    if case.get("dtype") == "int":
        return relayout(np.array([[int(x) for x in row] for row in M], dtype=np.int64))
    return relayout(np.array([[float(x) for x in row] for row in M], dtype=float))


def labels_of(case, M, cyclic):
    lab = ["cyclic" if cyclic else "acyclic", "dtype_" + case.get("dtype", "float")]
    p = len(M)
    nz = M != 0
    if (M < 0).any():
        lab.append("neg")
    col_cancel = any(nz[:, j].any() and M[:, j].sum() <= 0 for j in range(p))
    if col_cancel:
        lab.append("col_sum_le0")
    if nz.any() and M.sum() <= 0:
        lab.append("total_le0")
    if any(nz[i, i] for i in range(p)):
        lab.append("selfloop")
    if any(nz[i, j] and nz[j, i] for i in range(p) for j in range(i + 1, p)):
        lab.append("twocycle")
    return lab


def is_nontrivial(case, labels):
    return any(l in labels for l in ("neg", "col_sum_le0", "total_le0"))


def _long_matrix(case):
    """A single directed path through all p nodes (labels scrambled by an affine map, weights of alternating sign,
    some tiny), optionally closed into one long cycle: acyclic / cyclic by construction."""
    p, a, b = case["p"], case["a"], case["b"]
    lab = [(a * k + b) % p for k in range(p)]
    M = np.zeros((p, p))
    vals = [1.0, -1.0, 0.5, -2.0, 1e-13, -3.0]
    if case.get("band"):
        # banded variant: node k has the w previous nodes as parents (w^p directed walks, still trivially acyclic)
        w = case["band"]
        for k in range(p):
            for d in range(1, w + 1):
                if k - d >= 0:
                    M[lab[k - d], lab[k]] = vals[(k + d) % len(vals)]
        if case["cyclic"]:
            M[lab[p - 1], lab[case.get("back_to", 0)]] = -0.5
        return M
    if case.get("groups"):
        # dense variant: consecutive groups completely connected (group k -> group k+1), optionally closed into a "thick"
        # cycle (last group -> first): the number of walks explodes (m^g per turn) while the structure stays trivial
        gs = case["groups"]
        bounds = np.cumsum([0] + gs)
        for k in range(len(gs) - 1 + (1 if case["cyclic"] else 0)):
            src = range(bounds[k], bounds[k + 1])
            k2 = (k + 1) % len(gs)
            for i in src:
                for j in range(bounds[k2], bounds[k2 + 1]):
                    M[lab[i], lab[j]] = vals[(i + j) % len(vals)]
        return M
    for k in range(p - 1):
        M[lab[k], lab[k + 1]] = vals[k % len(vals)]
    if case["cyclic"]:
        M[lab[p - 1], lab[case.get("back_to", 0)]] = -0.5
    return M


def check_long(case):
    import sempler
    import sempler.utils as utils
    import sempler.noise as noise
    M = _long_matrix(case)
    p = len(M)
    cyclic = case["cyclic"]
    what = "directed path on %d nodes%s" % (p, " closed into a cycle" if cyclic else "")
    if case.get("band"):
        what = "banded graph on %d nodes (each node has the %d previous ones as parents)%s" % (p, case["band"], " plus one edge back" if cyclic else "")
    if case.get("groups"):
        what = "%d completely connected consecutive groups of sizes %s%s" % (len(case["groups"]), sorted(set(case["groups"])), " closed into a cycle" if cyclic else "")
    got = must(lib(utils.is_dag, M), "is_dag(%s)" % what)
    if bool(got) != (not cyclic):
        raise Violation("is_dag_wrong", "is_dag returned %r for a %s" % (got, what))
    o = lib(utils.topological_ordering, M)
    gates = [("LGANM", lambda: sempler.LGANM(M, np.zeros(p), np.ones(p)))]
    if p <= 1600:
        gates.append(("ANM", lambda: sempler.ANM(M, [None] * p, [noise.normal()] * p)))
    if cyclic:
        must_raise(o, ValueError, "topological_ordering(%s)" % what)
        for nm, g in gates:
            must_raise(lib(g), ValueError, "%s(%s)" % (nm, what))
    else:
        order = np.array([int(x) for x in must(o, "topological_ordering(%s)" % what)])
        if order.shape != (p,) or not np.array_equal(np.sort(order), np.arange(p)):
            raise Violation("ordering_not_permutation", "ordering of a %s is not a permutation" % what)
        pos = np.empty(p, dtype=int)
        pos[order] = np.arange(p)
        fro, to = np.nonzero(M)
        if not (pos[fro] < pos[to]).all():
            raise Violation("ordering_edge_backward", "ordering of a %s has a backward edge" % what)
        for nm, g in gates:
            must(lib(g), "%s(%s)" % (nm, what))
    return ["long_path", "cyclic" if cyclic else "acyclic", "neg", "p_%d" % p]


INT_DTYPES = {"int8": np.int8, "int16": np.int16, "int32": np.int32, "int64": np.int64}


def check_twins(case):
    """A signed-integer matrix whose only non-zero weights are the dtype's minimum (edges!), followed - in the same
    process - by the float matrix with the very same bytes (all entries +-0.0: no edge at all), and the other way round.
    Each must be judged by its own non-zero pattern."""
    import sempler
    import sempler.utils as utils
    dt = INT_DTYPES[case["dtype"]]
    lo = np.iinfo(dt).min
    pattern = np.array(case["pattern"], dtype=bool)
    p = len(pattern)
    M_int = np.where(pattern, lo, 0).astype(dt)
    twins = [("int", M_int)]
    if case.get("shape_twin"):
        # the p x p int32 matrix of ones and the 2p x 2p bool / uint8 matrix with the very same bytes: different graphs
        M_int = np.where(pattern, 1, 0).astype(np.int32)
        twins = [("int", M_int), ("bytes_as_%s" % case["shape_twin"], M_int.view(np.dtype(case["shape_twin"])).reshape(2 * p, 2 * p).copy())]
    elif case["dtype"] == "int64":
        twins.append(("float", M_int.view(np.float64).copy()))
    elif case["dtype"] == "int32":
        twins.append(("float", M_int.view(np.float32).copy()))
    elif case["dtype"] == "int16":
        twins.append(("float", M_int.view(np.float16).copy()))
    order = twins if case.get("int_first", True) else twins[::-1]
    lab = ["extreme_int_" + case["dtype"], "neg"]
    for rnd in range(2):
        for name, M in order:
            rows = G.rows_from_matrix(M)
            cyclic = G.has_cycle_dfs(rows)
            what = "%s matrix %s (%s)" % (name, M.tolist(), M.dtype)
            got = must(lib(utils.is_dag, M), "is_dag(%s)" % what)
            if bool(got) != (not cyclic):
                raise Violation("is_dag_wrong", "is_dag returned %r for the %s which is %s" % (got, what, "cyclic" if cyclic else "acyclic"))
            o = lib(utils.topological_ordering, M)
            p = len(M)
            g = lib(sempler.LGANM, M.astype(float) if name == "int" and case["dtype"] != "int64" else M, np.zeros(p), np.ones(p))
            if cyclic:
                must_raise(o, ValueError, "topological_ordering(%s)" % what)
                must_raise(g, ValueError, "LGANM(%s)" % what)
            else:
                order_ = [int(x) for x in must(o, "topological_ordering(%s)" % what)]
                pos = {v: k for k, v in enumerate(order_)}
                if sorted(order_) != list(range(p)) or any(M[i, j] != 0 and pos[i] >= pos[j] for i in range(p) for j in range(p)):
                    raise Violation("ordering_edge_backward", "ordering %r is not a topological order of the %s" % (order_, what))
                must(g, "LGANM(%s)" % what)
        if len(order) > 1:
            lab.append("byte_twins")
    return sorted(set(lab + ["cyclic" if G.has_cycle_dfs(G.rows_from_matrix(M_int)) else "acyclic"]))


def check(case):
    if case["sub"] == "long_path":
        return check_long(case)
    if case["sub"] == "byte_twins":
        return check_twins(case)
    import sempler
    import sempler.utils as utils
    import sempler.noise as noise
    M = _matrix(case)
    p = len(M)
    rows = G.rows_from_matrix(M)
    cyclic = G.has_cycle_dfs(rows)
    pristine = M.copy()

    o = lib(utils.is_dag, M)
    got = must(o, "is_dag")
    if bool(got) != (not cyclic):
        raise Violation("is_dag_wrong", "is_dag returned %r, graph is %s; M=%s" % (got, "cyclic" if cyclic else "acyclic", M.tolist()))

    o = lib(utils.topological_ordering, M)
    if cyclic:
        must_raise(o, ValueError, "topological_ordering(cyclic)")
    else:
        order = list(must(o, "topological_ordering(acyclic)"))
        if sorted(int(x) for x in order) != list(range(p)):
            raise Violation("ordering_not_permutation", "ordering %r for M=%s" % (order, M.tolist()))
        pos = {int(v): k for k, v in enumerate(order)}
        for i in range(p):
            for j in range(p):
                if M[i, j] != 0 and pos[i] >= pos[j]:
                    raise Violation("ordering_edge_backward", "edge %d->%d but ordering %r; M=%s" % (i, j, order, M.tolist()))
    if not (M == pristine).all():
        raise Violation("input_modified", "topological_ordering / is_dag modified its argument")

    gates = case.get("gates", ("lganm", "anm", "drfnet"))
    for gate in gates:
        if gate == "lganm":
            o = lib(sempler.LGANM, M, np.zeros(p), np.ones(p))
        elif gate == "anm":
            o = lib(sempler.ANM, M, [None] * p, [noise.normal()] * p)
        else:
            from sempler.semi import DRFNet
            data = [np.arange(3 * p, dtype=float).reshape(3, p)]
            o = lib(DRFNet, M, data)
        if cyclic:
            must_raise(o, ValueError, "%s(cyclic)" % gate)
        else:
            must(o, "%s(acyclic)" % gate)
    return labels_of(case, M, cyclic)


# ------------------------------------------------------------------------ generators

def _exh_small(acc):
    for p in (1, 2, 3):
        for vals in itertools.product((-1, 0, 1), repeat=p * p):
            M = [list(vals[i * p:(i + 1) * p]) for i in range(p)]
            for dtype in (("int", "float") if p <= 2 else ("int" if sum(vals) % 2 else "float",)):
                case = {"sub": "exh_p123", "M": M, "dtype": dtype}
                try:
                    lab = check(case)
                    acc.record(case, lab, is_nontrivial(case, lab), by_construction=True)
                except Violation as v:
                    acc.record(case, [], False)
                    acc.violation(case, v)
    acc.exhaustive = True


def _offdiag4(code):
    M = [[0] * 4 for _ in range(4)]
    for i in range(4):
        for j in range(4):
            if i != j:
                M[i][j] = (code % 3) - 1
                code //= 3
    return M


def _exh4(acc, lo, hi):
    for code in range(lo, hi):
        M = _offdiag4(code)
        case = {"sub": "exh_p4_sign", "M": M, "dtype": "float" if code % 2 else "int", "gates": ["lganm"] if code % 5 else ["lganm", "anm", "drfnet"]}
        try:
            lab = check(case)
            acc.record(case, lab, is_nontrivial(case, lab), by_construction=True, sample=(code % 9973 == 17))
        except Violation as v:
            acc.record(case, [], False)
            acc.violation(case, v)
    acc.exhaustive = True


@st.composite
def structured_matrix(draw, p_max):
    kind = draw(st.sampled_from(["dag", "dag", "backedge", "backedge", "twocycle", "selfloop", "sparse", "multi_back"]))
    if kind == "sparse":
        p = draw(st.integers(1, p_max))
        n = draw(st.integers(0, min(p * p, 2 * p)))
        cells = draw(st.lists(st.tuples(st.integers(0, p - 1), st.integers(0, p - 1), S.dyadic()), min_size=n, max_size=n))
        W = [[Fraction(0)] * p for _ in range(p)]
        for i, j, w in cells:
            W[i][j] = w
        cls = "sparse"
    else:
        Wj, cls = draw(S.weighted_dag(1 if kind in ("dag", "selfloop") else 2, p_max))
        W = [[fr(x) for x in row] for row in Wj]
        p = len(W)
        if kind == "selfloop":
            i = draw(st.integers(0, p - 1))
            W[i][i] = draw(S.dyadic())
        elif kind == "twocycle":
            i = draw(st.integers(0, p - 1))
            j = draw(st.integers(0, p - 2))
            j = j if j < i else j + 1
            a, b = draw(S.dyadic()), draw(st.sampled_from(["neg", "any", "cancel"]))
            W[i][j] = a
            W[j][i] = -a if b == "cancel" else (-abs(a) if b == "neg" else draw(S.dyadic()))
        elif kind in ("backedge", "multi_back"):
            # add edges against the DAG's own order; choose the weight so that the column /
            # total / cycle sum is negative, zero or positive
            reach = G.reach(G.rows_from_lists([[int(x != 0) for x in row] for row in W]))
            pairs = [(i, j) for i in range(p) for j in range(p) if i != j and reach[i] >> j & 1]
            nback = 1 if kind == "backedge" else draw(st.integers(2, 3))
            for _ in range(nback):
                if not pairs:
                    # no edge at all: make a 2-cycle instead
                    W[0][1], W[1][0] = Fraction(1), Fraction(-1)
                    break
                (i, j) = draw(st.sampled_from(pairs))          # j is a descendant of i: add j -> i
                mode = draw(st.sampled_from(["col_zero", "total_zero", "neg", "pos", "total_neg", "tiny", "tiny_neg"]))
                col = sum(W[r][i] for r in range(p))
                tot = sum(sum(r) for r in W)
                w = {"col_zero": -col, "total_zero": -tot, "neg": Fraction(-3, 2), "pos": Fraction(5, 4),
                     "total_neg": -tot - 1, "tiny": Fraction(1, 2 ** 60), "tiny_neg": -Fraction(1, 2 ** 200)}[mode]
                if w == 0:
                    w = Fraction(-1)
                W[j][i] = w
    if draw(st.integers(0, 5)) == 0 and len(W) <= 8:
        W = draw(S.embedded_wide(W))
        W = [[Fraction(x) for x in row] for row in W]
    integral = all(x.denominator == 1 for row in W for x in row)
    dtype = draw(st.sampled_from(["int", "float"])) if integral else "float"
    from harness.core import fstr

    def js(x):
        try:
            return fstr(x)
        except ValueError:          # a sum of tiny and ordinary weights: store the nearest double (still non-zero)
            return float(x) if float(x) != 0 else (5e-324 if x > 0 else -5e-324)
    return {"sub": "hyp_structured", "M": [[js(x) for x in row] for row in W], "dtype": dtype,
            "kind": kind, "wclass": cls}


def _hyp(acc, job):
    def chk(case):
        lab = check(case)
        return lab + ["kind_" + case["kind"], "w_" + case["wclass"]]
    run_property(acc, structured_matrix(job["p_max"]), chk, is_nontrivial, job["n"], job_seed(job))


def plan(tier, seed):
    jobs = [{"sub": "exh_p123", "seed": seed, "cost": 5}, {"sub": "byte_twins", "seed": seed, "cost": 3}]
    for p in ([1100, 1500, 2500] if tier == "quick" else [1100, 1500, 2500, 4000, 6000]):
        jobs.append({"sub": "long_path", "seed": seed, "p": p, "cost": 9 + p // 500})
    for k, gs in enumerate([[34, 34, 34], [2] * 65, [30, 30, 30, 30], [50] * 6, [7] * 20] + ([[64] * 8, [3] * 100] if tier == "thorough" else [])):
        jobs.append({"sub": "long_path", "seed": seed, "p": sum(gs), "groups": gs, "cost": 10})
    for (pb, w) in [(200, 6), (298, 8)] + ([(500, 12)] if tier == "thorough" else []):
        jobs.append({"sub": "long_path", "seed": seed, "p": pb, "band": w, "cost": 10})
    n4 = 3 ** 12
    shards4 = 48
    for k in range(shards4):
        jobs.append({"sub": "exh_p4_sign", "seed": seed, "lo": n4 * k // shards4, "hi": n4 * (k + 1) // shards4, "cost": 8})
    n = scaled(4000 if tier == "quick" else 100000)
    shards = 16 if tier == "quick" else 64
    for k in range(shards):
        jobs.append({"sub": "hyp_structured", "seed": seed, "shard": k, "n": max(1, n // shards),
                     "p_max": 8 if tier == "quick" else 14, "cost": 6 if tier == "quick" else 40})
    return jobs


def run(job):
    acc = Acc(job["sub"])
    if job["sub"] == "exh_p123":
        _exh_small(acc)
    elif job["sub"] == "byte_twins":
        # every 0/1 pattern on 1..3 nodes (p = 3: a seed-dependent half), weights = the integer dtype's minimum
        for p in (1, 2, 3):
            for n, bits in enumerate(itertools.product((0, 1), repeat=p * p)):
                if p == 3 and (n + job["seed"]) % 2:
                    continue
                pattern = [list(bits[i * p:(i + 1) * p]) for i in range(p)]
                for dt in ("int8", "int16", "int32", "int64"):
                    case = {"sub": "byte_twins", "pattern": pattern, "dtype": dt, "int_first": bool((n + len(dt)) % 2)}
                    try:
                        lab = check(case)
                        acc.record(case, lab, True, by_construction=True, sample=(n % 97 == 5 and dt == "int64"))
                    except Violation as v:
                        acc.record(case, [], False)
                        acc.violation(case, v)
                if p <= 2 or n % 4 == 0:
                    for tw in ("bool", "uint8", "int8"):
                        case = {"sub": "byte_twins", "pattern": pattern, "dtype": "int32", "shape_twin": tw, "int_first": bool((n + len(tw)) % 2)}
                        try:
                            lab = check(case)
                            acc.record(case, lab + ["shape_twins"], True, by_construction=True)
                        except Violation as v:
                            acc.record(case, [], False)
                            acc.violation(case, v)
        acc.exhaustive = False
    elif job["sub"] == "long_path":
        p = job["p"]
        a = next(x for x in range(p // 3 + job["seed"] % 7, p) if np.gcd(x, p) == 1)
        for cyclic, back in ((False, 0), (True, 0), (True, p // 2)):
            case = {"sub": "long_path", "p": p, "a": int(a), "b": 17 % p, "cyclic": cyclic, "back_to": back}
            if job.get("groups"):
                if back:
                    continue
                case["groups"] = job["groups"]
            if job.get("band"):
                case["band"] = job["band"]
            try:
                lab = check(case)
                acc.record(case, lab, True, by_construction=True)
            except Violation as v:
                acc.record(case, [], False)
                acc.violation(case, v)
        acc.exhaustive = False
    elif job["sub"] == "exh_p4_sign":
        _exh4(acc, job["lo"], job["hi"])
    else:
        _hyp(acc, job)
        acc.exhaustive = False
    return acc


def selfcheck():
    G.selfcheck()

LEVEL_TEXT = ("Exploration: the acyclicity test, the topological order and the three constructor gates are compared with an "
              "independent DFS on every matrix over {-1,0,1} up to 3 nodes, every zero-diagonal 4x4 sign pattern "
              "(exhaustive, 551k matrices) and thousands of generated signed / cancelling / cyclic matrices up to 14 nodes. "
              "Complete for the enumerated domains, sampled beyond; appropriate because the property is a pure function "
              "of the non-zero pattern and its known failure mode (sum-based shortcuts) shows on tiny matrices.")
LEVEL_NOTE = ("Trusted: the 3-colour DFS oracle in /verif/harness/graphs.py (self-checked against source peeling on all graphs "
              "<= 4 nodes), numpy, Hypothesis. Not a proof: p >= 5 and non-{-1,0,1} entries are sampled.")
TECHNIQUE = "exhaustive small-domain enumeration + Hypothesis structured generation vs. independent DFS oracle"
DESIGN_REF = "DESIGN.md section 4, C03"
