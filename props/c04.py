"""C04 - finite samples follow the population law."""
import math
from fractions import Fraction

import numpy as np
from hypothesis import strategies as st

from harness import exact as X
from harness import stats
from harness import strategies as S
from harness.core import Acc, Violation, fr, fstr, lib, must
from harness.hyp import job_seed, run_property, scaled
from props import c01

PROP = "C04"
N_LAW = 20000
RESOLVE = 10 ** 10
RULE = ("Hypothesis: (a) LGANMs with signed dyadic weights (p<=5), noise variances >= 0 incl. 0, every do/noise/shift overlap class "
        "with tuple and scalar (point-mass) parameters, also on non-source nodes; (b) NormalDistributions with Sigma = B B^T + "
        "diag(d), incl. rank-deficient B with d = 0 (singular Sigma, exactly degenerate coordinates); (c) ANM twins built from "
        "linear assignments and the library's normal noise with the matching intervention callables (no simultaneous shift+noise "
        "target). n in {0,1,3} for shape, n = 20,000 with a drawn random_state for the law. Oracle: population law from the "
        "checker's exact rational model of the intervened equations (never from the library), then per-coordinate mean z, "
        "per-entry covariance z (Wishart second moments), Kolmogorov-Smirnov on every non-degenerate coordinate and on two drawn "
        "integer projections, lag-1 row autocorrelation, no two equal rows when the law is non-degenerate, exactly degenerate "
        "coordinates constant within 1e-6*(1+sqrt(trace)+|c|), and a pooled variance statistic over all cases of a job. "
        "Bounds |z|<=8, sqrt(n)*KS<=3.8. Non-trivial = n = 20,000 and (negative weight, or a variance != 1, or an intervention "
        "on a non-source node, or singular Sigma). Also: variances 2^-20..2^-28 next to O(1) ones and per-coordinate units (coordinates more than 1e10 below the largest variance are only required to be numerically constant), models relabelled into 9..12 variables, integer means, an earlier call on the same model with a hash-colliding parameter.")
ASSUMPTIONS = [
    "population law = exact Fraction solution of the intervened equations (C01 oracle) / the given (mean, Sigma)",
    "per-statistic false-alarm probability < 1e-12 for any correct sampler; detectable: relative variance error >= 8% per case, ~1% pooled per job, mean shift >= 0.06 sigma",
    "numpy's RuntimeWarning for singular covariances is not an error",
    "ANM vs LGANM is not compared where a target is both shift- and noise-intervened",
]


def _law_of(case):
    """(mean, cov) as lists of Fractions for every kind of case."""
    if case["kind"] in ("lganm", "anm"):
        law = c01.exact_law(case)
        return law["mean"], law["cov"]
    B = X.mat([[fr(x) for x in row] for row in case["B"]])
    d = [fr(x) for x in case["d"]]
    cov = X.add(X.mm(B, X.T(B)), X.diag(d))
    cs = case.get("cscale")
    if cs:                   # per-coordinate dyadic units: eigenvalues many orders of magnitude apart
        u = [Fraction(2) ** e for e in cs]
        cov = [[cov[i][j] * u[i] * u[j] for j in range(len(cov))] for i in range(len(cov))]
    return [fr(x) for x in case["mean"]], cov


def _reuse_prelude(model, kwargs, seed, make_param):
    """Every second case: before the judged call, the caller uses the very same shift / noise dictionaries in another call
    that also do-intervenes on one of their targets.  The dictionaries are the caller's: what they say afterwards is what
    the judged call must implement."""
    own = [kwargs[k] for k in ("noise_interventions", "shift_interventions") if kwargs.get(k)]
    if seed % 2 or not own or "do_interventions" in kwargs:
        return
    t = sorted(own[0])[0]
    pre = {k: v for k, v in kwargs.items() if k != "do_interventions"}
    must(lib(model.sample, 3, random_state=1, do_interventions={t: make_param()}, **pre), "sample(prelude re-using the caller's dicts)")


def _sample(case, n, seed):
    import sempler
    import sempler.noise as noise
    kind = case["kind"]
    p = len(case["W"]) if kind != "normal" else len(case["mean"])
    if kind == "normal":
        mean, cov = _law_of(case)
        fmean = np.array(X.vto_float(mean))
        if case.get("int_mean") and all(m.denominator == 1 for m in mean):
            fmean = np.array([int(m) for m in mean], dtype=np.int64)
        dist = must(lib(sempler.NormalDistribution, fmean, np.array(X.to_float(cov)).reshape(p, p)), "NormalDistribution")
        return must(lib(dist.sample, n, random_state=seed), "NormalDistribution.sample(%d)" % n)
    dt = case.get("dtypes", {})
    Warr = c01._arr([x for row in case["W"] for x in row], dt.get("W", "float")).reshape(p, p)
    if kind == "lganm":
        model = must(lib(sempler.LGANM, Warr, c01._arr(case["means"], dt.get("means", "float")),
                         c01._arr(case["variances"], dt.get("variances", "float"))), "LGANM")
        kwargs = {}
        for nm, key in (("do", "do_interventions"), ("noise", "noise_interventions"), ("shift", "shift_interventions")):
            if case.get(nm):
                kwargs[key] = c01._interventions(case[nm], "dict")
        if case.get("prelude"):
            # an earlier call on the same model object with almost the same interventions (one mean moved -1 <-> -2)
            pre = {}
            for nm, key in (("do", "do_interventions"), ("noise", "noise_interventions"), ("shift", "shift_interventions")):
                if case["prelude"].get(nm):
                    pre[key] = c01._interventions(case["prelude"][nm], "dict")
            must(lib(model.sample, 3, random_state=1, **pre), "LGANM.sample(prelude %r)" % (pre,))
        _reuse_prelude(model, kwargs, seed, lambda: (7, 2))
        return must(lib(model.sample, n, random_state=seed, **kwargs), "LGANM.sample(%d, %r)" % (n, kwargs))
    # ANM twin
    Wf = Warr.astype(float)
    assignments = []
    for i in range(p):
        pa = np.where(Wf[:, i] != 0)[0]
        if len(pa) == 0:
            assignments.append(None)
        else:
            assignments.append(lambda Xb, w=Wf[pa, i].copy(): Xb @ w)
    dists = [noise.normal(float(fr(m)), float(fr(v))) for m, v in zip(case["means"], case["variances"])]
    anm = must(lib(sempler.ANM, Wf, assignments, dists), "ANM")
    kwargs = {}
    for nm, key in (("do", "do_interventions"), ("noise", "noise_interventions"), ("shift", "shift_interventions")):
        if case.get(nm):
            d = {}
            for t, v in case[nm].items():
                m, var = c01._param(v)
                d[int(t)] = noise.normal(float(m), float(var))
            kwargs[key] = d
    _reuse_prelude(anm, kwargs, seed, lambda: noise.normal(7.0, 2.0))
    return must(lib(anm.sample, n, random_state=seed, **kwargs), "ANM.sample(%d, interventions on %s)" % (n, {k: sorted(v) for k, v in kwargs.items()}))


def _stats(case, Xs, mean, cov):
    """All statistics of one law case; raises Violation; returns (labels, first variance z)."""
    n, p = Xs.shape
    fm = np.array(X.vto_float(mean))
    fc = np.array(X.to_float(cov)).reshape(p, p)
    # A coordinate whose variance is more than RESOLVE (1e10) times smaller than the largest one cannot be resolved by any
    # double-precision sampler that works from the covariance matrix (the spectrum's absolute accuracy is eps * lambda_max):
    # such coordinates - and exactly degenerate ones - are only required to be constant up to that numerical dust
    # (plus 8 of their own tiny standard deviations); all statistical tests run on the resolvable ("live") coordinates.
    vmax = max(cov[i][i] for i in range(p))
    live = [i for i in range(p) if cov[i][i] != 0 and cov[i][i] * RESOLVE >= vmax]
    degenerate = [i for i in range(p) if i not in live]
    ctx = "%s case %s" % (case["kind"], {k: v for k, v in case.items() if k not in ("sub",)})
    trace = float(sum(cov[i][i] for i in range(p)))
    for i in degenerate:
        tol = 1e-6 * (1 + math.sqrt(trace) + abs(fm[i])) + 8 * math.sqrt(float(cov[i][i]))
        dev = float(np.abs(Xs[:, i] - fm[i]).max())
        if not dev <= tol:
            raise Violation("point_mass_not_constant", "coordinate %d has (numerically) zero population variance %.3g (value %r) but the sample "
                            "deviates by %.3g; %s" % (i, float(cov[i][i]), fm[i], dev, ctx))
    # i.i.d. rows of a continuous law do not repeat: among n draws of a resolvable coordinate (standard deviation at least
    # 1e-3 of |mean|, so that the double grid is 1e-13 sd fine) at most a handful of values coincide by rounding
    for i in live:
        if math.sqrt(float(fc[i, i])) >= 1e-3 * abs(float(fm[i])):
            distinct = len(np.unique(Xs[:, i]))
            if n - distinct > 5 + n * n * 1e-12:
                raise Violation("rows_repeat", "coordinate %d: only %d distinct values among %d draws of a continuous law - rows are "
                                "repeated, not independent; %s" % (i, distinct, n, ctx))
            break
    sm = Xs.mean(axis=0)
    Sc = np.cov(Xs, rowvar=False).reshape(p, p)
    zvar_first = None
    for i in live:
        z = (sm[i] - fm[i]) / math.sqrt(fc[i, i] / n)
        if not abs(z) <= stats.Z_MAX:
            raise Violation("mean_law", "coordinate %d: sample mean %.6g vs population %.6g (z=%.1f); %s" % (i, sm[i], fm[i], z, ctx))
    for a, i in enumerate(live):
        for j in live[a:]:
            z = stats.z_cov(Sc[i, j], fc[i, j], fc[i, i], fc[j, j], n)
            if i == j and zvar_first is None:
                zvar_first = z
            if not abs(z) <= stats.Z_MAX:
                raise Violation("cov_law", "entry (%d,%d): sample covariance %.6g vs population %.6g (z=%.1f); %s" % (i, j, Sc[i, j], fc[i, j], z, ctx))
    for i in live:
        sd = math.sqrt(fc[i, i])
        ks = stats.ks_scaled(Xs[:, i], lambda t, m=fm[i], s=sd: stats.norm_cdf(t, m, s))
        if not ks <= stats.KS_MAX:
            raise Violation("ks_law", "coordinate %d: sqrt(n)*KS distance to N(%.4g, %.4g) is %.2f; %s" % (i, fm[i], fc[i, i], ks, ctx))
        za = stats.z_autocorr(Xs[:, i])
        if not abs(za) <= stats.Z_MAX:
            raise Violation("rows_not_independent", "coordinate %d: lag-1 autocorrelation z=%.1f; %s" % (i, za, ctx))
    for a in case.get("proj", []):
        av = [Fraction(v) for v in a]
        var = sum(av[i] * cov[i][j] * av[j] for i in range(p) for j in range(p))
        scale = sum(av[i] * av[i] * cov[i][i] for i in range(p))
        if var > 0 and var * RESOLVE >= scale and all(av[i] == 0 for i in degenerate):
            mu = float(sum(av[i] * mean[i] for i in range(p)))
            y = Xs @ np.array([float(v) for v in av])
            ks = stats.ks_scaled(y, lambda t, m=mu, s=math.sqrt(float(var)): stats.norm_cdf(t, m, s))
            if not ks <= stats.KS_MAX:
                raise Violation("ks_law_projection", "projection %s: sqrt(n)*KS distance to N(%.4g, %.4g) is %.2f; %s" % (a, mu, float(var), ks, ctx))
    if live:
        uniq = len(np.unique(Xs[:, live], axis=0))
        if uniq != n:
            raise Violation("repeated_rows", "only %d distinct rows among %d although the law is non-degenerate; %s" % (uniq, n, ctx))
    return zvar_first


def _labels(case, mean, cov):
    lab = ["kind_" + case["kind"]]
    p = len(mean)
    if any(cov[i][i] == 0 for i in range(p)):
        lab.append("degenerate_coordinate")
    vs = [cov[i][i] for i in range(p) if cov[i][i] != 0]
    if vs and max(vs) >= 10 ** 8 * min(vs):
        lab.append("variance_ratio_ge_1e8")
    try:
        X.inv(cov)
    except X.Singular:
        lab.append("singular_sigma")
    if case["kind"] != "normal":
        base = c01._labels(case, None)
        lab += [l for l in base if l in ("neg_weight", "nonsource_target", "overlap", "point_mass", "scalar_param", "intervened")]
        if any(fr(v) != 1 for v in case["variances"]):
            lab.append("var_ne_1")
    else:
        if any(cov[i][i] != 1 for i in range(p)):
            lab.append("var_ne_1")
    return lab


def check(case):
    if case["sub"] == "pooled":
        return _check_pooled(case["cases"])
    mean, cov = _law_of(case)
    p = len(mean)
    lab = _labels(case, mean, cov)
    n = case["n"]
    Xs = np.asarray(_sample(case, n, case["seed"]))
    if Xs.shape != (n, p):
        raise Violation("bad_shape", "sample of shape %r, expected (%d, %d); kind %s" % (Xs.shape, n, p, case["kind"]))
    lab.append("n_%d" % n)
    if n >= 5000:
        _stats(case, Xs, mean, cov)
        lab.append("law")
        if any(l in lab for l in ("neg_weight", "var_ne_1", "nonsource_target", "singular_sigma")):
            lab.append("nt")
    elif n > 0:
        for i in range(p):
            if cov[i][i] == 0:
                tol = 1e-6 * (1 + math.sqrt(float(sum(cov[k][k] for k in range(p)))) + abs(float(mean[i])))
                if not float(np.abs(Xs[:, i] - float(mean[i])).max()) <= tol:
                    raise Violation("point_mass_not_constant", "coordinate %d should be the constant %r: %s" % (i, float(mean[i]), Xs[:, i].tolist()))
    return lab


def _check_pooled(cases):
    """Mean of the first-coordinate variance z-scores over many independent cases (distinct seeds) ~ N(0, 1/T)."""
    zs = []
    seen_seeds = set()
    for case in cases:
        # independence across cases is what makes the pooled statistic N(0,1): two cases that share a random_state are
        # driven by the same underlying normal draws, so only the first case of every seed value enters the pool
        if case["seed"] in seen_seeds:
            continue
        seen_seeds.add(case["seed"])
        mean, cov = _law_of(case)
        p = len(mean)
        vmax = max(cov[i][i] for i in range(p))
        live = [i for i in range(p) if cov[i][i] != 0 and cov[i][i] * RESOLVE >= vmax]
        if not live or case["n"] < 5000:
            continue
        Xs = np.asarray(_sample(case, case["n"], case["seed"]))
        i = live[0]
        s2 = float(np.var(Xs[:, i], ddof=1))
        v = float(cov[i][i])
        zs.append((s2 - v) / (v * math.sqrt(2.0 / (case["n"] - 1))))
    T = len(zs)
    if T >= 8:
        z = sum(zs) / math.sqrt(T)
        if not abs(z) <= stats.Z_MAX:
            raise Violation("pooled_variance_bias", "pooled variance statistic over %d cases is %.1f (mean z %.3f): sample variances are "
                            "systematically %s than the population ones" % (T, z, sum(zs) / T, "larger" if z > 0 else "smaller"))
    return ["pooled_T_%d" % T]


def _nontrivial(case, labels):
    return "nt" in labels


@st.composite
def law_case(draw, shape_only=False):
    kind = draw(st.sampled_from(["lganm", "lganm", "normal", "anm"]))
    if kind == "normal":
        p = draw(st.integers(1, 5))
        singular = draw(st.integers(0, 2)) == 0
        r = draw(st.integers(1, max(1, p - 1))) if singular else draw(st.integers(1, p))
        B = [[fstr(Fraction(draw(st.integers(-6, 6)), 4)) for _ in range(r)] for _ in range(p)]
        if singular and draw(st.booleans()):
            z = draw(st.integers(0, p - 1))
            B[z] = [0] * r
        d = [0] * p if singular else [fstr(Fraction(draw(st.integers(1, 12)), 4)) for _ in range(p)]
        if all(all(fr(x) == 0 for x in row) for row in B) and singular:
            B[0][0] = 1
        case = {"kind": "normal", "mean": [fstr(Fraction(draw(st.integers(-40, 40)), 4)) for _ in range(p)], "B": B, "d": d}
        if draw(st.integers(0, 2)) == 0:
            case["mean"] = [draw(st.integers(-9, 9)) for _ in range(p)]
            case["int_mean"] = True
        if draw(st.integers(0, 2)) == 0:
            case["cscale"] = [draw(st.sampled_from([0, 0, 5, -7, -10])) for _ in range(p)]
    else:
        base = draw(c01.law_case(5, huge=False))     # huge means next to small variances are not representable as samples
        case = {k: base[k] for k in ("W", "means", "variances", "dtypes", "do", "noise", "shift", "wclass")}
        case["kind"] = kind
        fu = base.get("followups", [{}])
        if kind == "lganm" and len(fu) == 2 and fu[0] and any(fu[0].get(nm) for nm in ("do", "noise", "shift")) and \
                all(set(fu[0].get(nm, {})) == set(case[nm]) for nm in ("do", "noise", "shift")):
            case["prelude"] = fu[0]
        if kind == "anm":
            # no documented common rule for a target that is both shift- and noise-intervened
            for t in list(case["shift"]):
                if t in case["noise"] and t not in case["do"]:
                    del case["shift"][t]
            case["dtypes"] = {}
        p = len(case["W"])
        if draw(st.integers(0, 2)) == 0:
            # one noise variance many orders of magnitude below the others
            t = draw(st.integers(0, p - 1))
            case["variances"][t] = fstr(Fraction(draw(st.integers(1, 7)), 2 ** draw(st.sampled_from([20, 24, 28]))))
            case["dtypes"] = dict(case.get("dtypes", {}), variances="float")
        if draw(st.integers(0, 2)) == 0 and p >= 2:
            # relabel the model into 9..12 variables (isolated standard-normal extras)
            pb = draw(st.integers(9, 12))
            lab = list(draw(st.permutations(list(range(pb)))))[:p]
            W = [[0] * pb for _ in range(pb)]
            for i in range(p):
                for j in range(p):
                    W[lab[i]][lab[j]] = case["W"][i][j]
            means, variances = [0] * pb, [1] * pb
            for i in range(p):
                means[lab[i]], variances[lab[i]] = case["means"][i], case["variances"][i]
            for nm in ("do", "noise", "shift"):
                case[nm] = {str(lab[int(t)]): v for t, v in case[nm].items()}
            case.update(W=W, means=means, variances=variances, dtypes={})
            p = pb
    case["n"] = draw(st.sampled_from([0, 1, 3])) if shape_only else N_LAW if draw(st.integers(0, 39)) else draw(st.sampled_from([262144, 150001, 1048593]))
    case["seed"] = draw(st.one_of(st.integers(2, 2 ** 32 - 1), st.integers(2, 2 ** 32 - 1), st.integers(1000, 2 ** 31), st.sampled_from([0, 1])))
    case["proj"] = [[draw(st.integers(-2, 2)) for _ in range(p)] for _ in range(2)]
    case["sub"] = "shape" if shape_only else "law"
    return case


def plan(tier, seed):
    jobs = []
    n = scaled(2560 if tier == "quick" else 25600)
    shards = 16 if tier == "quick" else 32
    for k in range(shards):
        jobs.append({"sub": "law", "seed": seed, "shard": k, "n": max(1, n // shards), "cost": 20})
    ns = scaled(320 if tier == "quick" else 4000)
    for k in range(4 if tier == "quick" else 16):
        jobs.append({"sub": "shape", "seed": seed, "shard": k, "salt": 7, "n": max(1, ns // (4 if tier == "quick" else 16)), "cost": 2})
    return jobs


def run(job):
    acc = Acc(job["sub"])
    if job["sub"] == "shape":
        run_property(acc, law_case(shape_only=True), check, lambda c, l: c["n"] > 0, job["n"], job_seed(job))
        acc.exhaustive = False
        return acc
    seen = []

    def chk(case):
        lab = check(case)
        seen.append(case)
        return lab
    run_property(acc, law_case(), chk, _nontrivial, job["n"], job_seed(job))
    # pooled statistic over the distinct cases of this job (replayable: the case list is the input)
    if not acc.violations:
        uniq = {}
        for c in seen:
            from harness.core import case_hash
            uniq.setdefault(case_hash(c), c)
        pooled = {"sub": "pooled", "cases": list(uniq.values())}
        try:
            lab = _check_pooled(pooled["cases"])
            acc.classes[lab[0]] += 1
        except Violation as v:
            acc.violation(pooled, v)
    acc.exhaustive = False
    return acc


LEVEL_TEXT = ("Exploration with statistical acceptance regions of bounded false-alarm probability: generated LGANMs (all intervention "
              "overlap classes, point masses, non-source targets), NormalDistributions (incl. singular covariances) and ANM twins are "
              "sampled at n = 20,000 with drawn seeds and compared with the exact population law through variance-scaled z-scores of "
              "every mean and covariance entry, Kolmogorov-Smirnov distances of coordinates and projections, row autocorrelation, "
              "row distinctness and a pooled variance statistic; shapes at n in {0,1,3}.")
LEVEL_NOTE = ("Trusted: the exact rational law (C01 oracle), closed-form normal CDF and Wishart second moments in /verif/harness/stats.py. "
              "Deviations below the stated effect sizes are undetectable at this sample size; no claim beyond the generated models.")
TECHNIQUE = "Hypothesis model generation + exact population law + statistical oracle (z / KS bounds, bounded false-alarm rate)"
DESIGN_REF = "DESIGN.md section 4, C04"
