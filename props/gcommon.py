"""Helpers shared by the graph properties (C07-C10, C15, C16, C18)."""
import numpy as np

from harness import graphs as G
from harness.core import Violation


DTYPES = {"int": np.int64, "float": float, "uint8": np.uint8, "bool": bool, "int32": np.int32, "float32": np.float32,
          int: np.int64, float: float, None: np.int64}
DTYPE_NAMES = ["int", "float", "uint8", "bool", "int32", "float32"]


def relayout(A, key=None, readonly=False):
    """The same array values in one of the memory layouts a caller may hand over: C order (half of the cases), Fortran
    order, or a strided view into a larger buffer that is otherwise filled with ones.  The choice is a function of the
    array content (so a stored case replays identically).  Always writable."""
    A = np.asarray(A)
    if A.ndim not in (1, 2) or A.size == 0:
        return A
    if key is None:
        key = int(np.count_nonzero(A)) + 3 * A.shape[0] + int(np.count_nonzero(A[0] if A.ndim == 2 else A[:1]))
    if readonly and key % 8 == 5:
        B = A.copy()
        B.setflags(write=False)          # e.g. a memory-mapped file, np.broadcast_to, a pandas copy-on-write block
        return B
    k = key % 4
    if k < 2:
        return A
    if k == 2:
        return np.asfortranarray(A).copy(order="F") if A.ndim == 2 else A[::-1].copy()[::-1]
    if A.ndim == 2:
        big = np.ones((2 * A.shape[0] + 1, 2 * A.shape[1] + 1), dtype=A.dtype)
        big[1::2, 1::2] = A
        return big[1::2, 1::2]
    big = np.ones(3 * A.shape[0] + 2, dtype=A.dtype)
    big[1::3][: A.shape[0]] = A
    return big[1::3][: A.shape[0]]


NARROW = [np.int8, np.uint8, np.int16, np.uint16, np.int32, np.int64, np.uint64, np.intp]


def npint(v, key, narrow=False):
    """An integer argument the way callers often get it - np.int64 (from np.where, np.arange, shape arithmetic) or
    np.int32 - in one case out of three; a plain int otherwise.  With narrow=True the numpy types also include the
    small and unsigned ones (np.int8 ... np.uint64, e.g. `A.sum()` of a uint8 matrix), whenever the value fits.
    Deterministic in `key`."""
    if isinstance(v, (bool, np.bool_)) or not isinstance(v, (int, np.integer)):
        return v
    v = int(v)
    k = key % 6
    if narrow and k in (0, 1, 2):
        T = NARROW[(key // 6) % len(NARROW)]
        if T is np.uint64 and narrow == "members":
            T = np.uint16         # [np.uint64(3), 5] becomes a float64 array in numpy: not an index list any more - the caller's problem
        info = np.iinfo(T)
        if info.min <= v <= info.max:
            return T(v)
        return np.int64(v)
    if k == 0:
        return np.int64(v)
    if k == 1 and abs(v) < 2 ** 31:
        return np.int32(v)
    return v


def typed_int(v, tname):
    """v as the named numpy integer type when it fits (else as a Python int)."""
    if tname in (None, "int"):
        return int(v)
    T = getattr(np, tname)
    info = np.iinfo(T)
    return T(v) if info.min <= int(v) <= info.max else int(v)


def npints(values, key, narrow=False):
    """A collection of indices with some members numpy integers; lists / tuples keep their type, a set comes back
    as a set or - one time in three - as a frozenset (both are 'a set of nodes')."""
    if isinstance(values, (set, frozenset)):
        out = [npint(v, key + 2 * n, narrow and "members") for n, v in enumerate(sorted(values))]
        return frozenset(out) if key % 3 == 1 else set(out)
    if isinstance(values, (list, tuple)):
        return type(values)(npint(v, key + 2 * n, narrow and "members") for n, v in enumerate(values))
    return values


def to_np(rows, dtype="int"):
    """0/1 adjacency in any of the dtypes - and memory layouts - a caller may reasonably use for a 0/1 matrix."""
    return relayout(G.matrix_from_rows(rows, dtype=DTYPES.get(dtype, dtype)), readonly=True)


def case_graph(case, key="A"):
    """Matrix stored in a case as list of lists of 0/1 (or numbers) -> (numpy array, rows)."""
    dt = float if case.get("dtype") == "float" else int
    A = np.array(case[key], dtype=dt)
    return A, G.rows_from_matrix(A)


def result_set(arr, p, what):
    """A library result that is a stack of adjacency matrices -> (set of rows, count).
    An empty result may come back as array([]) of any shape."""
    arr = np.asarray(arr)
    if arr.size == 0:
        return set(), 0
    if arr.ndim != 3 or arr.shape[1:] != (p, p):
        raise Violation("bad_shape", "%s returned array of shape %r" % (what, arr.shape))
    rows = [G.rows_from_matrix(M) for M in arr]
    spoil(arr)
    return set(rows), len(rows)


def spoil(arr):
    """Overwrite an array the library returned (after it was judged): if the library handed out
    a view of its own storage or a cached object, the next call shows it."""
    if isinstance(arr, np.ndarray) and arr.size and arr.flags.writeable:
        try:
            arr[...] = 7
        except (ValueError, TypeError):
            pass


def lib_debug(fn, *args):
    """fn(*args, debug=True) with what it prints discarded -> Outcome, or None when the function has no such
    parameter (then nothing is judged: the flag is a convenience, not part of any property)."""
    import contextlib
    import io
    from harness.core import lib
    with contextlib.redirect_stdout(io.StringIO()):
        o = lib(fn, *args, debug=True)
    if not o.ok and isinstance(o.exc, TypeError) and "debug" in str(o.exc):
        return None
    return o


def compare_sets(got, n_got, want, what, ctx):
    if n_got != len(got):
        raise Violation("duplicates", "%s returned %d graphs, %d distinct; %s" % (what, n_got, len(got), ctx))
    if got != set(want):
        missing = [G.lists_from_rows(g) for g in sorted(set(want) - got)][:2]
        extra = [G.lists_from_rows(g) for g in sorted(got - set(want))][:2]
        raise Violation("wrong_set", "%s: %d returned vs %d expected; missing e.g. %s; unexpected e.g. %s; %s"
                        % (what, len(got), len(want), missing, extra, ctx))


def pattern_equal(M, rows):
    return G.rows_from_matrix(np.asarray(M)) == tuple(rows)


def pdag_codes(p):
    """Codes of all PDAGs on p nodes whose directed part is acyclic (increasing code order)."""
    for code in range(G.n_pdag_codes(p)):
        g = G.graph_from_code(p, code)
        if G.directed_part_acyclic(g):
            yield code, g


def shard_range(total, k, n):
    return total * k // n, total * (k + 1) // n


def signed_copy(rows, salt):
    """Deterministic real weight matrix (any sign, never zero on an edge) with the given
    non-zero pattern - used to present DAGs 'as weight matrices'."""
    p = len(rows)
    W = np.zeros((p, p))
    vals = [-2.5, 1.0, -1.0, 0.5, 3.0, -0.25, 2.0, -1.0, 1e-13, -3e-14, 5e-324, -2.0 ** -200, 1.5, -4.0][: 8 + 6 * (salt % 2)]
    k = salt
    for i in range(p):
        for j in range(p):
            if rows[i] >> j & 1:
                W[i, j] = vals[k % len(vals)]
                k += 1
    # make columns with >= 2 parents cancel where possible (sum of incoming weights = 0)
    for j in range(p):
        pas = [i for i in range(p) if W[i, j] != 0]
        if len(pas) >= 2 and (salt + j) % 2 == 0:
            s = W[pas[:-1], j].sum()
            if s != 0:
                W[pas[-1], j] = -s
    return W


def chain_variant(rows, kind, salt=0):
    """Weight matrices around the canonical chain 0 -> 1 -> ... -> p-1, for code that recognises 'the chain' by value:
    'near_one'    - every edge weight is 1 only up to rounding (0.7 + 0.2 + 0.1, 1 + 1e-9, 1 - 1e-12) or exactly 1;
    'tiny_extras' - edges i -> i+1 have weight 1 (salt even) or ordinary weights (salt odd), every other edge a weight far
                    below any tolerance (1e-13, -1e-300, 5e-324, 1e-9, -1e-10): still an edge."""
    p = len(rows)
    W = np.zeros((p, p))
    near = [0.7 + 0.2 + 0.1, 1 + 1e-9, 1 - 1e-12, 1.0]
    tiny = [1e-13, -1e-300, 5e-324, 1e-9, -1e-10]
    ordinary = [2.5, -1.0, 0.75, 1.0, -3.0]
    k = salt
    for i in range(p):
        for j in range(p):
            if rows[i] >> j & 1:
                if kind == "near_one":
                    W[i, j] = near[k % len(near)]
                elif j == i + 1:
                    W[i, j] = 1.0 if salt % 2 == 0 else ordinary[k % len(ordinary)]
                else:
                    W[i, j] = tiny[k % len(tiny)]
                k += 1
    return W


def has_cycle_big(M):
    """Iterative 3-colour DFS over adjacency lists for graphs too large for the bitset oracle."""
    M = np.asarray(M)
    p = len(M)
    adj = [np.nonzero(M[i])[0].tolist() for i in range(p)]
    colour = [0] * p
    for s0 in range(p):
        if colour[s0]:
            continue
        stack = [(s0, 0)]
        colour[s0] = 1
        while stack:
            v, k = stack[-1]
            if k < len(adj[v]):
                stack[-1] = (v, k + 1)
                w = adj[v][k]
                if colour[w] == 1:
                    return True
                if colour[w] == 0:
                    colour[w] = 1
                    stack.append((w, 0))
            else:
                colour[v] = 2
                stack.pop()
    return False
