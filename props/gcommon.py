"""Helpers shared by the graph properties (C07-C10, C15, C16, C18)."""
import numpy as np

from harness import graphs as G
from harness.core import Violation


def to_np(rows, dtype=int):
    return G.matrix_from_rows(rows, dtype=dtype)


def case_graph(case, key="A"):
    """Matrix stored in a case as list of lists of 0/1 (or numbers) -> (numpy array, rows)."""
    dt = float if case.get("dtype") == "float" else int
    A = np.array(case[key], dtype=dt)
    return A, G.rows_from_matrix(A)


def result_set(arr, p, what):
    """A library result that is a stack of adjacency matrices -> (set of rows, count).
    An empty result may come back as array([]) of any shape."""
    arr = np.asarray(arr)
    if arr.size == 0:
        return set(), 0
    if arr.ndim != 3 or arr.shape[1:] != (p, p):
        raise Violation("bad_shape", "%s returned array of shape %r" % (what, arr.shape))
    rows = [G.rows_from_matrix(M) for M in arr]
    return set(rows), len(rows)


def compare_sets(got, n_got, want, what, ctx):
    if n_got != len(got):
        raise Violation("duplicates", "%s returned %d graphs, %d distinct; %s" % (what, n_got, len(got), ctx))
    if got != set(want):
        missing = [G.lists_from_rows(g) for g in sorted(set(want) - got)][:2]
        extra = [G.lists_from_rows(g) for g in sorted(got - set(want))][:2]
        raise Violation("wrong_set", "%s: %d returned vs %d expected; missing e.g. %s; unexpected e.g. %s; %s"
                        % (what, len(got), len(want), missing, extra, ctx))


def pattern_equal(M, rows):
    return G.rows_from_matrix(np.asarray(M)) == tuple(rows)


def pdag_codes(p):
    """Codes of all PDAGs on p nodes whose directed part is acyclic (increasing code order)."""
    for code in range(G.n_pdag_codes(p)):
        g = G.graph_from_code(p, code)
        if G.directed_part_acyclic(g):
            yield code, g


def shard_range(total, k, n):
    return total * k // n, total * (k + 1) // n


def signed_copy(rows, salt):
    """Deterministic real weight matrix (any sign, never zero on an edge) with the given
    non-zero pattern - used to present DAGs 'as weight matrices'."""
    p = len(rows)
    W = np.zeros((p, p))
    vals = [-2.5, 1.0, -1.0, 0.5, 3.0, -0.25, 2.0, -1.0]
    k = salt
    for i in range(p):
        for j in range(p):
            if rows[i] >> j & 1:
                W[i, j] = vals[k % len(vals)]
                k += 1
    # make columns with >= 2 parents cancel where possible (sum of incoming weights = 0)
    for j in range(p):
        pas = [i for i in range(p) if W[i, j] != 0]
        if len(pas) >= 2 and (salt + j) % 2 == 0:
            s = W[pas[:-1], j].sum()
            if s != 0:
                W[pas[-1], j] = -s
    return W
