"""C05 - Gaussian conditioning and marginalisation are exact."""
from fractions import Fraction

import math

import numpy as np
from hypothesis import strategies as st

from harness import exact as X
from harness.core import Acc, Violation, fr, fstr, lib, must, must_raise
from harness.hyp import job_seed, run_property, scaled

PROP = "C05"
EPS = 2.0 ** -52
KAPPA_MAX = 1e10
RULE = ("Hypothesis: rational means, covariances Sigma = B B^T + diag(d) with small dyadic B (p<=7, rank 1..p) and d>0 "
        "(positive definite by construction) or d=0 outside the conditioning block (singular Sigma, well-conditioned X "
        "block), scaled by 4^s for s in [-20,20]; disjoint index lists Y, X in a drawn ORDER, presented as int / list / "
        "tuple / range / ndarray; dyadic conditioning values; error inputs (overlapping X/Y, len(X) != len(x), mean/covariance "
        "size mismatch). Oracle: exact Fraction derivation in the precision-matrix form (a different formula from the code's "
        "Schur complement; exact Schur complement for singular Sigma), requested order, tolerance scaled by cond(Sigma_XX); "
        "marginal must be the exact index selection; metamorphic: conditional(Y,[],[]) == marginal(Y), "
        "marginal(S).marginal(T) == marginal(S[T]), two-step == joint conditioning, and the same query repeated on the same "
        "object with X (and x) permuted. Non-trivial = |Y|>=2 not sorted, or |X|>=2 not sorted. Also: per-coordinate power-of-two units (2^-300..2^85) with an equilibrated tolerance, int64 covariances, arithmetic-progression ranges, covariances with p^2 entries in the wrong shape.")
ASSUMPTIONS = [
    "oracle: exact rational linear algebra (/verif/harness/exact.py), precision-matrix form of the conditional",
    "cases with cond_inf(Sigma_XX) > 1e8 are discarded, not failed; tolerance 100*eps*n*cond*norms",
    "empty Y and set-typed index containers are not generated (undocumented)",
    "all generated numbers are dyadic rationals (exactly representable doubles)",
]


def _present(idx, how):
    if how == "int":
        return int(idx[0])
    if how == "tuple":
        return tuple(idx)
    if how == "array":
        return np.array(idx, dtype=int)
    if how.startswith("array_"):         # index arrays come in every integer width (np.argsort gives intp, a label column int8 ...)
        return np.array(idx, dtype=getattr(np, how[6:]))
    if how == "range":
        step = (idx[1] - idx[0]) if len(idx) > 1 else 1
        return range(idx[0], idx[-1] + (1 if step > 0 else -1), step)
    return list(idx)


def _xpresent(vals, how):
    f = [float(fr(v)) for v in vals]
    if how == "scalar":
        return f[0]
    if how == "array":
        return np.array(f)
    return f


def build(case):
    """Exact (mean, cov) from the case."""
    B = X.mat([[fr(x) for x in row] for row in case["B"]])
    d = [fr(x) for x in case["d"]]
    s = Fraction(4) ** case.get("scale_exp", 0)
    cov = X.add(X.mm(B, X.T(B)), X.diag(d))
    cov = [[c * s for c in row] for row in cov]
    cs = case.get("cscale")
    if cs:                                   # per-coordinate dyadic units: Sigma' = D Sigma D, exact in binary floating point
        u = [Fraction(2) ** e for e in cs]
        cov = [[cov[i][j] * u[i] * u[j] for j in range(len(cov))] for i in range(len(cov))]
    mean = [fr(x) for x in case["mean"]]
    return mean, cov


def float_cov(case, cov):
    """The covariance as handed to the library: float64, or int64 when the case asks for it and every entry is an integer."""
    p = len(cov)
    if case.get("int_cov") and all(c.denominator == 1 and abs(c) < 2 ** 53 for row in cov for c in row):
        return np.array([[int(c) for c in row] for row in cov], dtype=np.int64).reshape(p, p)
    return np.array(X.to_float(cov)).reshape(p, p)


def unit(v):
    """Power of two nearest to sqrt(v): the natural unit of a coordinate with variance v (exact scaling in binary floats)."""
    v = float(v)
    if v <= 0:
        return Fraction(1)
    e = int(round(math.log2(v) / 2.0))
    return Fraction(2) ** e


def exact_conditional(mean, cov, Y, Xi, x):
    """Exact conditional (mean, covariance) of Y given X = x, plus the norms that scale the floating-point tolerance.
    All norms are taken after *equilibration* - every coordinate expressed in its own unit 2^k ~ standard deviation - so
    that the tolerance is invariant under a change of units (a norm-wise bound on badly scaled matrices would be vacuous)."""
    ny = len(Y)
    uy = [unit(cov[i][i]) for i in Y]
    if not Xi:
        return [mean[i] for i in Y], X.block(cov, Y, Y), 1.0, {"uy": [float(u) for u in uy], "empty": True}
    ux = [unit(cov[i][i]) for i in Xi]
    Sxx = X.block(cov, Xi, Xi)
    Sxx_inv = X.inv(Sxx)
    Syx = X.block(cov, Y, Xi)
    dx = X.vsub(x, [mean[i] for i in Xi])
    try:
        idx = list(Y) + list(Xi)
        Lam = X.inv(X.block(cov, idx, idx))
        Lyy = [row[:ny] for row in Lam[:ny]]
        Lyx = [row[ny:] for row in Lam[:ny]]
        c = X.inv(Lyy)
        m = X.vsub([mean[i] for i in Y], X.mv(X.mm(c, Lyx), dx))
        form = "precision"
    except X.Singular:
        c = X.sub(X.block(cov, Y, Y), X.mm(X.mm(Syx, Sxx_inv), X.T(Syx)))
        m = X.vadd([mean[i] for i in Y], X.mv(X.mm(Syx, Sxx_inv), dx))
        form = "schur_exact"
    # equilibrated blocks
    nx = len(Xi)
    Sxx_s = [[Sxx[a][b] / (ux[a] * ux[b]) for b in range(nx)] for a in range(nx)]
    Sxx_inv_s = [[Sxx_inv[a][b] * (ux[a] * ux[b]) for b in range(nx)] for a in range(nx)]
    Syx_s = [[Syx[a][b] / (uy[a] * ux[b]) for b in range(nx)] for a in range(ny)]
    Syy_s = [[cov[Y[a]][Y[b]] / (uy[a] * uy[b]) for b in range(ny)] for a in range(ny)]
    dx_s = [dx[b] / ux[b] for b in range(nx)]
    norms = {"kx": float(X.norm_inf(Sxx_s) * X.norm_inf(Sxx_inv_s)), "syx": float(X.norm_inf(Syx_s)), "sxy": float(X.norm_inf(X.T(Syx_s))),
             "sxxinv": float(X.norm_inf(Sxx_inv_s)), "dx": float(X.vnorm_inf(dx_s)), "syy": float(X.norm_inf(Syy_s)),
             "my": [abs(float(mean[i])) for i in Y], "uy": [float(u) for u in uy], "form": form}
    return m, c, norms["kx"], norms


def _tols(n, norms, loose=0.0):
    """Entry-wise tolerances (vector for the mean, matrix for the covariance): an equilibrated norm-wise bound
    1000 * eps * n * cond * |S_yx| |S_xx^-1| |S_xy|, mapped back to the units of the Y coordinates."""
    uy = np.array(norms["uy"])
    if norms.get("empty"):
        return np.zeros(len(uy)), np.zeros((len(uy), len(uy)))
    k = norms["kx"]
    t_cov = 1000 * EPS * n * k * norms["syx"] * norms["sxxinv"] * norms["sxy"] + 100 * EPS * norms["syy"] + loose * norms["syy"]
    t_mean = 1000 * EPS * n * k * norms["syx"] * norms["sxxinv"] * norms["dx"] + loose * norms["syx"] * norms["sxxinv"] * norms["dx"]
    tol_cov = t_cov * np.outer(uy, uy) + 1e-300
    tol_mean = t_mean * uy + (100 * EPS + loose) * np.array(norms["my"]) + 1e-300
    return tol_mean, tol_cov


def _compare(dist, m, c, tol_mean, tol_cov, what, ctx, acc_ratio=None):
    ny = len(m)
    gm = np.asarray(dist.mean, dtype=float)
    gc = np.asarray(dist.covariance, dtype=float)
    if gm.shape != (ny,) or gc.shape != (ny, ny):
        raise Violation("bad_shape", "%s: mean %r covariance %r, expected %d variables; %s" % (what, gm.shape, gc.shape, ny, ctx))
    wm = np.array(X.vto_float(m))
    wc = np.array(X.to_float(c)).reshape(ny, ny)
    em = np.abs(gm - wm)
    ec = np.abs(gc - wc)
    if acc_ratio is not None and ny:
        acc_ratio.append(max(float((em / tol_mean).max()) if np.all(tol_mean > 0) else 0.0, float((ec / tol_cov).max()) if np.all(tol_cov > 0) else 0.0))
    if not (em <= tol_mean).all():
        k = int(np.argmax(em / np.maximum(tol_mean, 1e-300)))
        raise Violation("mean_wrong", "%s: mean %s vs exact %s (entry %d: err %.3g > tol %.3g); %s" % (what, gm.tolist(), wm.tolist(), k, em[k], tol_mean[k], ctx))
    if not (ec <= tol_cov).all():
        k = np.unravel_index(int(np.argmax(ec / np.maximum(tol_cov, 1e-300))), ec.shape)
        raise Violation("cov_wrong", "%s: covariance %s vs exact %s (entry %s: err %.3g > tol %.3g); %s"
                        % (what, gc.tolist(), wc.tolist(), tuple(int(v) for v in k), ec[k], tol_cov[k], ctx))


def check_bigx(case):
    """Conditioning on 64 and more variables at once.  The Gaussian is given through its precision matrix
    K = (I - W)(I - W)^T for a banded W with dyadic weights (K is exact in floating point), the library receives inv(K);
    with X = all variables but Y the conditional is N(mu_Y - K_YY^-1 K_YX (x - mu_X), K_YY^-1): an independent formula that
    never touches the big conditioning block."""
    import sempler
    p, band, ny = case["p"], case["band"], case["ny"]
    idx = [(case["a"] * k + 1) % p for k in range(p)]
    W = np.zeros((p, p))
    ws = [0.25, -0.5, 0.125, -0.25, 0.5]
    for k in range(p):
        for d in range(1, band + 1):
            if k - d >= 0 and (k + d) % 3:
                W[idx[k - d], idx[k]] = ws[(k * d) % len(ws)]
    IW = np.eye(p) - W
    K = IW @ IW.T
    cov = np.linalg.inv(K)
    mu = np.array([(3 * k % 7) - 3.0 for k in range(p)])
    order = [(case["b"] * k + 2) % p for k in range(p)]
    Y, Xi = order[:ny], order[ny:]
    x = np.array([((5 * k) % 9 - 4) / 4.0 for k in range(len(Xi))])
    Kyy = K[np.ix_(Y, Y)]
    Kyx = K[np.ix_(Y, Xi)]
    want_cov = np.linalg.inv(Kyy)
    want_mean = mu[Y] - want_cov @ (Kyx @ (x - mu[Xi]))
    dist = must(lib(sempler.NormalDistribution, mu.copy(), cov.copy()), "NormalDistribution(p=%d)" % p)
    res = must(lib(dist.conditional, list(Y), np.array(Xi), x.copy()), "conditional(|Y|=%d, |X|=%d)" % (ny, len(Xi)))
    gm, gc = np.asarray(res.mean, dtype=float), np.asarray(res.covariance, dtype=float)
    if gm.shape != (ny,) or gc.shape != (ny, ny):
        raise Violation("bad_shape", "conditional on %d variables: mean %r covariance %r" % (len(Xi), gm.shape, gc.shape))
    tol = 1e-7 * np.linalg.cond(K)
    em = float(np.abs(gm - want_mean).max() / (1 + np.abs(want_mean).max()))
    ec = float(np.abs(gc - want_cov).max() / np.abs(want_cov).max())
    if not (em <= tol and ec <= tol):
        raise Violation("conditional_wrong", "conditional of %d variables given the other %d (p=%d, banded precision): relative error mean %.3g "
                        "covariance %.3g (tol %.3g); mean %s vs %s" % (ny, len(Xi), p, em, ec, tol, gm.tolist(), want_mean.tolist()))
    perm = [(case["a"] * k + 3) % len(Xi) for k in range(len(Xi))]
    if sorted(perm) == list(range(len(Xi))):
        res2 = must(lib(dist.conditional, list(Y), [Xi[k] for k in perm], x[perm].copy()), "conditional (same object, X permuted)")
        gm2, gc2 = np.asarray(res2.mean, dtype=float), np.asarray(res2.covariance, dtype=float)
        em2 = float(np.abs(gm2 - want_mean).max() / (1 + np.abs(want_mean).max()))
        ec2 = float(np.abs(gc2 - want_cov).max() / np.abs(want_cov).max())
        if not (em2 <= tol and ec2 <= tol):
            raise Violation("conditional_order_dependent", "second conditional on the same object with the %d conditioning variables in another "
                            "order: relative error mean %.3g covariance %.3g (tol %.3g)" % (len(Xi), em2, ec2, tol))
    return ["bigx", "X_ge_64", "nt"]


def check(case):
    if case["sub"] == "bigx":
        return check_bigx(case)
    import sempler
    sub = case["sub"]
    mean, cov = build(case)
    p = len(cov)
    fmean = np.array(X.vto_float(mean))
    fcov = float_cov(case, cov)
    ctx = "mean=%s cov=%s Y=%s X=%s x=%s" % (fmean.tolist(), fcov.tolist(), case.get("Y"), case.get("X"), case.get("x"))
    if sub == "errors":
        return _check_errors(sempler, case, fmean, fcov, ctx)
    from props.gcommon import relayout
    dist = must(lib(sempler.NormalDistribution, relayout(fmean.copy()), relayout(fcov.copy())), "NormalDistribution(...)")
    Y, Xi = list(case["Y"]), list(case["X"])
    x = [fr(v) for v in case["x"]]
    lab = []
    if len(Y) >= 2 and Y != sorted(Y):
        lab.append("Y_unsorted")
    if len(Xi) >= 2 and Xi != sorted(Xi):
        lab.append("X_unsorted")
    if fcov.dtype != float:
        lab.append("int_cov")
    if case.get("cscale") and (max(case["cscale"]) - min(case["cscale"])) >= 10:
        lab.append("mixed_units")
    lab.append("Ypres_" + case.get("Ypres", "list"))
    if p >= 12:
        lab.append("p_ge_12")
    if p >= 17:
        lab.append("p_ge_17")
    lab.append("Xpres_" + case.get("Xpres", "list"))

    # ---- marginal: exact index selection, requested order
    for idx, how in ((Y, case.get("Ypres", "list")), (Xi, case.get("Xpres", "list"))):
        if not idx:
            continue
        mg = must(lib(dist.marginal, _present(idx, how)), "marginal(%s)" % idx)
        gm, gc = np.asarray(mg.mean), np.asarray(mg.covariance)
        if gm.shape != (len(idx),) or gc.shape != (len(idx), len(idx)) or not (gm == fmean[idx]).all() or not (gc == fcov[np.ix_(idx, idx)]).all():
            raise Violation("marginal_wrong", "marginal(%s) = mean %s cov %s, expected the selection mean %s cov %s; %s"
                            % (idx, gm.tolist(), gc.tolist(), fmean[idx].tolist(), fcov[np.ix_(idx, idx)].tolist(), ctx))
    # marginalising is compositional
    if len(Y) >= 2:
        T = case.get("T") or list(range(len(Y)))[::-1][: max(1, len(Y) - 1)]
        a = must(lib(lambda: dist.marginal(list(Y)).marginal(list(T))), "marginal.marginal")
        b = must(lib(dist.marginal, [Y[t] for t in T]), "marginal(S[T])")
        if not (np.array_equal(a.mean, b.mean) and np.array_equal(a.covariance, b.covariance)):
            raise Violation("marginal_not_compositional", "marginal(%s).marginal(%s) != marginal(%s); %s" % (Y, T, [Y[t] for t in T], ctx))
        lab.append("compositional")
    # conditioning on nothing = marginalising
    c0 = must(lib(dist.conditional, _present(Y, case.get("Ypres", "list")), [], []), "conditional(Y, [], [])")
    m0 = must(lib(dist.marginal, list(Y)), "marginal(Y)")
    if not (np.array_equal(c0.mean, m0.mean) and np.array_equal(c0.covariance, m0.covariance)):
        raise Violation("cond_nothing_ne_marginal", "conditional(%s, [], []) differs from marginal(%s); %s" % (Y, Y, ctx))

    # ---- conditional against the exact oracle
    if Xi:
        m, c, kx, norms = exact_conditional(mean, cov, Y, Xi, x)
        if kx > KAPPA_MAX:
            return ["discard_illconditioned"]
        tm, tc = _tols(len(Xi) + 1, norms)
        ratios = []
        Yarg, Xarg = _present(Y, case.get("Ypres", "list")), _present(Xi, case.get("Xpres", "list"))
        xarg = _xpresent(case["x"], case.get("xpres", "list"))
        cd = must(lib(dist.conditional, Yarg, Xarg, xarg), "conditional(Y, X, x)")
        _compare(cd, m, c, tm, tc, "conditional(%s | %s = %s)" % (Y, Xi, case["x"]), ctx, ratios)
        if isinstance(Xarg, np.ndarray) and isinstance(xarg, np.ndarray) and len(Xi) >= 2 and len(Y) >= 1:
            # the caller re-uses its own index / value buffers: swaps two conditioning variables (and their values) in
            # place, reverses Y in place if it can, and asks again with the same objects - the same conditional law
            Xarg[[0, -1]] = Xarg[[-1, 0]]
            xarg[[0, -1]] = xarg[[-1, 0]]
            Yb = list(Y)
            if isinstance(Yarg, np.ndarray):
                Yarg[:] = Yarg[::-1].copy()
                Yb = list(reversed(Y))
            mb, cb, _, normsb = exact_conditional(mean, cov, Yb, [int(v) for v in Xarg], [Fraction(float(v)) for v in xarg])
            tmb, tcb = _tols(len(Xi) + 1, normsb)
            cdb = must(lib(dist.conditional, Yarg, Xarg, xarg), "conditional (caller's buffers edited in place)")
            _compare(cdb, mb, cb, tmb, tcb, "conditional(%s | %s) with the same index / value arrays after an in-place swap"
                     % (Yb, [int(v) for v in Xarg]), ctx, ratios)
            lab.append("buffers_reused")
        lab.append("oracle_" + norms["form"])
        if norms["form"] == "schur_exact":
            lab.append("singular_sigma")
        # same object, X (and x) permuted, Y permuted: history independence + order handling
        perm = case.get("perm")
        if perm and len(Xi) >= 2:
            X2 = [Xi[k] for k in perm]
            x2 = [case["x"][k] for k in perm]
            Y2 = list(reversed(Y))
            m2, c2, _, norms2 = exact_conditional(mean, cov, Y2, X2, [fr(v) for v in x2])
            tm2, tc2 = _tols(len(Xi) + 1, norms2)
            cd2 = must(lib(dist.conditional, Y2, X2, [float(fr(v)) for v in x2]), "conditional (permuted, same object)")
            _compare(cd2, m2, c2, tm2, tc2, "second call on the same object conditional(%s | %s = %s)" % (Y2, X2, x2), ctx, ratios)
            # and the first query again
            cd3 = must(lib(dist.conditional, list(Y), list(Xi), [float(v) for v in x]), "conditional (repeat)")
            _compare(cd3, m, c, tm, tc, "third call (first query repeated) conditional(%s | %s)" % (Y, Xi), ctx, ratios)
            lab.append("repeat_permuted")
        # two-step conditioning = joint conditioning (well-conditioned cases only, loose tolerance)
        if len(Xi) >= 2 and kx <= 1e3:
            k = case.get("split", 1)
            k = min(max(1, k), len(Xi) - 1)
            X1, X2 = Xi[:k], Xi[k:]
            inter = list(Y) + list(X2)
            step1 = must(lib(dist.conditional, inter, list(X1), [float(v) for v in x[:k]]), "conditional step 1")
            pos = {v: n for n, v in enumerate(inter)}
            step2 = must(lib(step1.conditional, [pos[v] for v in Y], [pos[v] for v in X2], [float(v) for v in x[k:]]), "conditional step 2")
            tm_l, tc_l = _tols(len(Xi) + 1, norms, loose=1e-7)
            _compare(step2, m, c, tm_l, tc_l, "two-step conditioning (%s then %s)" % (X1, X2), ctx)
            lab.append("two_step")
        r = max(ratios) if ratios else 0.0
        lab.append("max_ratio_bucket_%s" % ("lt1e-3" if r < 1e-3 else "lt1e-2" if r < 1e-2 else "lt1e-1" if r < 1e-1 else "lt1"))
    return lab


def _check_errors(sempler, case, fmean, fcov, ctx):
    kind = case["kind"]
    p = len(fcov)
    if kind == "size_mismatch_shape":
        # a covariance argument with p*p entries but not of shape (p, p)
        shape = {"flat": (p * p,), "row": (1, p * p), "col": (p * p, 1), "half": (2, p * p // 2) if p % 2 == 0 and p > 2 else (p * p,)}[case["shape"]]
        o = lib(sempler.NormalDistribution, fmean, np.asarray(fcov, dtype=float).reshape(shape))
        must_raise(o, ValueError, "NormalDistribution(mean of size %d, covariance of shape %r)" % (p, shape))
        return ["err_size_mismatch_shape_" + case["shape"]]
    if kind == "size_mismatch":
        o = lib(sempler.NormalDistribution, fmean[: case["cut"]], fcov)
        must_raise(o, ValueError, "NormalDistribution(mean of size %d, covariance %dx%d)" % (len(fmean[: case["cut"]]), p, p))
        return ["err_size_mismatch_short" if case["cut"] < p else "err_size_mismatch_long"]
    dist = must(lib(sempler.NormalDistribution, fmean, fcov), "NormalDistribution(...)")
    Y, Xi = list(case["Y"]), list(case["X"])
    xv = [float(fr(v)) for v in case["x"]]
    o = lib(dist.conditional, _present(Y, case.get("Ypres", "list")), _present(Xi, case.get("Xpres", "list")) if Xi else [], xv)
    if kind == "overlap":
        must_raise(o, ValueError, "conditional(overlapping Y=%s X=%s)" % (Y, Xi))
        return ["err_overlap"]
    if kind == "xlen":
        must_raise(o, ValueError, "conditional(len(X)=%d, len(x)=%d)" % (len(Xi), len(xv)))
        return ["err_xlen"]
    raise ValueError(kind)


def _nontrivial(case, labels):
    return "Y_unsorted" in labels or "X_unsorted" in labels


# ------------------------------------------------------------------------ generators

def _q(max_k, den, lo=None):
    return st.integers(-max_k if lo is None else lo, max_k).map(lambda k: fstr(Fraction(k, den)))


@st.composite
def _dist(draw, p_min=1, p_max=7):
    p = draw(st.integers(p_min, p_max))
    r = draw(st.integers(1, p))
    B = [[draw(_q(8, 4)) for _ in range(r)] for _ in range(p)]
    mean = [draw(_q(40, 8)) for _ in range(p)]
    return p, B, mean


def _pres_for(draw, idx, allow_int=True):
    kinds = ["list", "list", "tuple", "array", draw(st.sampled_from(["array_int8", "array_uint8", "array_int16", "array_int32", "array_uint64"]))]
    if len(idx) == 1 and allow_int:
        kinds.append("int")
    if idx and (len(idx) == 1 or (idx[1] != idx[0] and all(idx[k + 1] - idx[k] == idx[1] - idx[0] for k in range(len(idx) - 1)))):
        kinds += ["range", "range"]          # any arithmetic progression, ascending or descending (e.g. range(3, -1, -1))
    return draw(st.sampled_from(kinds))


@st.composite
def cond_case(draw):
    wide = draw(st.integers(0, 5)) == 0
    if wide:
        # many variables (12..40), few of them queried: index arithmetic on the positions, not on the values
        p = draw(st.integers(12, 40))
        r = draw(st.integers(1, 3))
        B = [[draw(_q(8, 4)) for _ in range(r)] for _ in range(p)]
        mean = [draw(_q(40, 8)) for _ in range(p)]
        hi = draw(st.lists(st.integers(max(0, p - 6), p - 1), min_size=2, max_size=4, unique=True))      # the last labels take part
        rest = draw(st.lists(st.integers(0, p - 1), min_size=0, max_size=3, unique=True))
        order = list(dict.fromkeys(list(draw(st.permutations(hi))) + rest))
        if draw(st.booleans()):
            order = order[::-1]
        ny = draw(st.integers(1, len(order) - 1))
        nx = draw(st.integers(1, len(order) - ny)) if draw(st.integers(0, 9)) else 0
    else:
        p, B, mean = draw(_dist(2, 7) if draw(st.integers(0, 3)) == 0 else _dist(4, 7))
        order = draw(st.permutations(list(range(p))))
        ny = draw(st.integers(1, p - 1))
        nx = draw(st.integers(1, p - ny)) if draw(st.integers(0, 9)) else 0
    Y, Xi = list(order[:ny]), list(order[ny:ny + nx])
    if draw(st.integers(0, 3)) == 0:
        Y = sorted(Y)
    singular = draw(st.integers(0, 5)) == 0 and nx > 0
    den = draw(st.sampled_from([4, 4, 4, 4096, 2 ** 20]))
    d = [fstr(Fraction(draw(st.integers(1, 8)), den)) for _ in range(p)]
    if singular:
        d = [d[i] if i in Xi else 0 for i in range(p)]
    x = [draw(_q(40, 8)) for _ in range(nx)]
    case = {"sub": "cond", "mean": mean, "B": B, "d": d, "Y": Y, "X": Xi, "x": x,
            "scale_exp": draw(st.sampled_from([0, 0, 0, 1, -1, 10, -10, 20, -20])),
            "Ypres": _pres_for(draw, Y), "Xpres": _pres_for(draw, Xi) if Xi else "list",
            "xpres": draw(st.sampled_from(["list", "array"] + (["scalar"] if nx == 1 else []))),
            "split": draw(st.integers(1, 3))}
    if draw(st.integers(0, 3)) == 0:
        case["cscale"] = [draw(st.sampled_from([0, 0, 1, -1, 9, -9, 17, -17])) for _ in range(p)]
        if draw(st.integers(0, 3)) == 0:
            # all coordinates in a minute (or huge) unit: determinants under- / overflow although nothing is ill-conditioned
            base = draw(st.sampled_from([-300, -270, -95, 85]))
            case["cscale"] = [base + draw(st.integers(-2, 2)) for _ in range(p)]
    if draw(st.integers(0, 3)) == 0:
        # integer-typed covariance (entries B B^T + d with integer B, d), possibly huge
        case["B"] = [[draw(st.integers(-3, 3)) for _ in row] for row in B]
        case["d"] = [draw(st.integers(1, 5)) if fr(v) != 0 else 0 for v in case["d"]]
        case["scale_exp"] = draw(st.sampled_from([0, 0, 3, 8, 16, 22]))
        case["cscale"] = None
        case["int_cov"] = True
    if nx >= 2:
        case["perm"] = list(draw(st.permutations(list(range(nx)))))
    if ny >= 2:
        case["T"] = list(draw(st.lists(st.integers(0, ny - 1), min_size=1, max_size=ny, unique=True)))
    return case


@st.composite
def error_case(draw):
    p, B, mean = draw(_dist(2, 6))
    d = [fstr(Fraction(draw(st.integers(1, 8)), 4)) for _ in range(p)]
    kind = draw(st.sampled_from(["overlap", "xlen", "size_mismatch", "size_mismatch_shape"]))
    order = draw(st.permutations(list(range(p))))
    ny = draw(st.integers(1, p - 1))
    nx = draw(st.integers(1, p - ny))
    Y, Xi = list(order[:ny]), list(order[ny:ny + nx])
    x = [draw(_q(16, 4)) for _ in range(nx)]
    case = {"sub": "errors", "kind": kind, "mean": mean, "B": B, "d": d, "Y": Y, "X": Xi, "x": x}
    if kind == "overlap":
        shared = draw(st.sampled_from(Y))
        pos = draw(st.integers(0, len(Xi)))
        Xi = Xi[:pos] + [shared] + Xi[pos:]
        case["X"] = Xi
        case["x"] = x + [draw(_q(16, 4))]
        case["Ypres"] = _pres_for(draw, Y)
        case["Xpres"] = draw(st.sampled_from(["list", "tuple", "array"]))
    elif kind == "xlen":
        delta = draw(st.sampled_from([-1, 1, 2]))
        if delta < 0:
            case["x"] = x[:-1]
        else:
            case["x"] = x + [draw(_q(16, 4)) for _ in range(delta)]
    elif kind == "size_mismatch_shape":
        case["shape"] = draw(st.sampled_from(["flat", "row", "col", "half"]))
    else:
        case["cut"] = draw(st.integers(1, p - 1)) if draw(st.booleans()) else p + 1
        if case["cut"] == p + 1:
            case["mean"] = mean + [0]
    return case


def plan(tier, seed):
    jobs = []
    n = scaled(12800 if tier == "quick" else 160000)
    shards = 16 if tier == "quick" else 64
    for k in range(shards):
        jobs.append({"sub": "cond", "seed": seed, "shard": k, "n": max(1, n // shards), "cost": 10})
    jobs.append({"sub": "bigx", "seed": seed, "tier": tier, "cost": 6})
    ne = scaled(1600 if tier == "quick" else 16000)
    for k in range(4 if tier == "quick" else 16):
        jobs.append({"sub": "errors", "seed": seed, "shard": k, "salt": 3, "n": max(1, ne // (4 if tier == "quick" else 16)), "cost": 2})
    return jobs


def run(job):
    acc = Acc(job["sub"])
    if job["sub"] == "bigx":
        import math
        for k, (p, band, ny) in enumerate([(67, 2, 3), (70, 3, 1), (100, 2, 4), (150, 3, 2), (66, 1, 2), (96, 4, 3)] +
                                          ([(300, 3, 5), (257, 2, 1)] if job.get("tier") == "thorough" else [])):
            a = next(v for v in range(5 + (job["seed"] + k) % 11, 5 + (job["seed"] + k) % 11 + 4 * p) if math.gcd(v, p) == 1)
            b = next(v for v in range(a + 3, a + 3 + 4 * p) if math.gcd(v, p) == 1)
            case = {"sub": "bigx", "p": p, "band": band, "ny": ny, "a": a, "b": b}
            try:
                acc.record(case, check(case), True, by_construction=True)
            except Violation as v:
                acc.record(case, [], False)
                acc.violation(case, v)
        acc.exhaustive = False
        return acc
    if job["sub"] == "cond":
        run_property(acc, cond_case(), check, _nontrivial, job["n"], job_seed(job))
        acc.discarded = acc.classes.get("discard_illconditioned", 0)
    else:
        run_property(acc, error_case(), check, lambda c, l: True, job["n"], job_seed(job))
    acc.exhaustive = False
    return acc


LEVEL_TEXT = ("Exploration: thousands of generated Gaussians (incl. singular covariances and 4^+-20 scalings) with disjoint index "
              "lists in every order and presentation are conditioned / marginalised and compared with an exact rational "
              "derivation through a different formula (precision-matrix form), plus metamorphic relations and repeated / "
              "permuted queries on the same object; the three documented ValueErrors are required exactly on the error inputs.")
LEVEL_NOTE = ("Trusted: Fraction linear algebra in /verif/harness/exact.py. Cases with cond(Sigma_XX) > 1e8 discarded; tolerance is "
              "a norm-wise, condition-scaled bound with a factor 100 (observed errors are reported as a ratio bucket).")
TECHNIQUE = "Hypothesis structured generation vs. exact rational oracle (independent formula) + metamorphic relations"
DESIGN_REF = "DESIGN.md section 4, C05"
