"""C20 - noise factories draw n values from the documented law."""
import math

import numpy as np
from hypothesis import strategies as st

from harness import stats
from harness.core import Acc, Violation, lib, must
from harness.hyp import job_seed, run_property, scaled

PROP = "C20"
RULE = ("Hypothesis: factory in {normal, uniform, laplace, zero}, means of either sign (|mean| <= 64), var in {0.01..100} with "
        "var != 1 over-weighted, lo < hi of either sign, scale in {0.05..30}; n in {0, 1, 5} for shape and n = 20,000 for the "
        "law; drawn seed for numpy's global generator. Oracle: 1-D shape (n,), float values, support [lo, hi) for uniform; "
        "z-scores (|z| <= 8) of the sample mean and of the sample variance using the exact fourth moments (normal 3 s^4, "
        "uniform w^4/80, Laplace 24 b^4), Kolmogorov-Smirnov distance sqrt(n) D <= 3.8 against the closed-form CDF, lag-1 "
        "autocorrelation z; zero() == 0; the SAME callable object gives the same array after re-seeding numpy's global "
        "generator with the same seed (whatever was drawn in between) and different arrays for consecutive calls; "
        "functions.null(anything) == 0. Default arguments are exercised too. Non-trivial = n = 20,000 with var != 1 (normal), "
        "(lo, hi) != (0, 1) (uniform), scale != 1 (laplace). Distinct = (factory, parameters, n, seed). Also: parameters as numpy float32 / int32 / int64 / 0-d arrays, variances / widths / scales from 2^-40 to 1e6, n up to 196,608 (multiples of 2^16), results overwritten before the next draw, deep / shallow copies and pickles of the callable.")
ASSUMPTIONS = [
    "false-alarm probability per statistic < 1e-12 for any correct sampler and any random stream (z<=8, KS<=3.8)",
    "detectable effect at n=20,000: relative variance error >= ~9% (normal), mean shift >= 0.06 sigma, wrong family by KS",
    "'draws come from numpy's global generator' is observed through reproducibility after np.random.seed",
    "sizes / counts / integer bounds are generated as Python ints or signed numpy integers of 32 bits or more (DESIGN.md 8.7b)",
]
N_LAW = 20000


def _typed(v, ptype):
    """The same parameter value in the numeric type the caller happens to hold it in."""
    if ptype == "np_float64":
        return np.float64(v)
    if ptype == "np_float32" and float(np.float32(v)) == float(v):
        return np.float32(v)
    if ptype == "zero_d":
        return np.array(float(v))
    if ptype in ("int8", "int16", "int32", "int64") and float(v) == int(v):
        info = np.iinfo(ptype)
        if info.min <= int(v) <= info.max:
            return np.dtype(ptype).type(int(v))
    if ptype == "py_int" and float(v) == int(v):
        return int(v)
    return v


def _factory(case):
    import sempler.noise as noise
    k = case["factory"]
    a = {kk: _typed(v, case.get("ptype", "plain")) for kk, v in case.get("args", {}).items()}
    if k == "normal":
        return noise.normal(**{x: a[x] for x in ("mean", "var") if x in a}) if not case.get("positional") else noise.normal(a["mean"], a["var"])
    if k == "uniform":
        return noise.uniform(**{x: a[x] for x in ("lo", "hi") if x in a}) if not case.get("positional") else noise.uniform(a["lo"], a["hi"])
    if k == "laplace":
        return noise.laplace(**{x: a[x] for x in ("mean", "scale") if x in a}) if not case.get("positional") else noise.laplace(a["mean"], a["scale"])
    return noise.zero()


def _params(case):
    a = case.get("args", {})
    k = case["factory"]
    if k == "normal":
        return a.get("mean", 0), a.get("var", 1)
    if k == "uniform":
        return a.get("lo", 0), a.get("hi", 1)
    if k == "laplace":
        return a.get("mean", 0), a.get("scale", 1)
    return ()


def check(case):
    import sempler.functions as functions
    if case["sub"] == "null":
        args = [np.zeros((3, 2)), 1, "x"][: case["nargs"]]
        v = must(lib(functions.null, *args), "functions.null")
        if not (np.isscalar(v) and v == 0) and not (isinstance(v, np.ndarray) and (v == 0).all()):
            raise Violation("null_not_zero", "functions.null(%d args) = %r" % (case["nargs"], v))
        return ["null"]
    n = case["n"]
    if case["factory"] != "zero":
        # the user seeds numpy first and creates the distribution afterwards: creating it must not disturb the stream
        outs = []
        for _ in range(2):
            np.random.seed(case["seed"])
            f0 = must(lib(_factory, case), "noise.%s(%r)" % (case["factory"], case.get("args")))
            outs.append(np.asarray(must(lib(f0, min(n, 50) or 3), "draw right after creation")).copy())
        if not np.array_equal(outs[0], outs[1]):
            raise Violation("not_reproducible", "np.random.seed(%d); f = noise.%s(%r); f(n) gives different draws the second time: creating "
                            "the distribution disturbs numpy's global generator" % (case["seed"], case["factory"], case.get("args")))
    fac = must(lib(_factory, case), "noise.%s(%r)" % (case["factory"], case.get("args")))
    k = case["factory"]
    pr = _params(case)
    ctx = "noise.%s(%r) n=%d seed=%d" % (k, case.get("args"), n, case["seed"])
    np.random.seed(case["seed"])
    x = must(lib(fac, n), "draw")
    x = np.asarray(x)
    if x.shape != (n,):
        raise Violation("bad_shape", "returned shape %r, expected (%d,); %s" % (x.shape, n, ctx))
    if n and k != "zero" and not np.issubdtype(x.dtype, np.floating):
        raise Violation("bad_dtype", "returned dtype %s; %s" % (x.dtype, ctx))
    lab = ["fac_" + k, "n_%d" % n, "ptype_" + case.get("ptype", "plain")]
    # reproducibility through numpy's global generator, same callable object
    first = x.copy()
    if x.size and x.flags.writeable:
        x[...] = 12345.0          # the caller owns what it got: overwriting it must not change later draws
    x = first
    second = np.asarray(must(lib(fac, n), "second draw"))
    np.random.random(case.get("burn", 3))
    np.random.seed(case["seed"])
    again = np.asarray(must(lib(fac, n), "draw after re-seeding"))
    if not np.array_equal(first, again):
        raise Violation("not_reproducible", "same callable, same np.random.seed(%d): different draws; %s" % (case["seed"], ctx))
    if k != "zero" and n >= 2 and np.array_equal(first, second):
        raise Violation("degenerate_stream", "two consecutive draws are identical; %s" % ctx)
    # a copy of the callable (an ANM deep-copies the distributions it is given) still draws from the *global* generator
    import copy
    dup = lib(copy.deepcopy, fac)
    if dup.ok and callable(dup.value):
        np.random.random(case.get("burn", 3) + 1)
        np.random.seed(case["seed"])
        viacopy = np.asarray(must(lib(dup.value, n), "draw from a deep copy of the callable"))
        if not np.array_equal(first, viacopy):
            raise Violation("copy_not_on_global_generator", "np.random.seed(%d) then a deep copy of the callable: draws differ from those "
                            "of the original after the same seeding; %s" % (case["seed"], ctx))
        lab.append("deepcopy")
    # other ways a callable gets duplicated: a shallow copy, a pickle round trip (skipped when the object cannot be pickled)
    import pickle
    for how, mk in (("copy.copy", lambda: copy.copy(fac)), ("pickle round trip", lambda: pickle.loads(pickle.dumps(fac)))):
        dup = lib(mk)
        if dup.ok and callable(dup.value):
            np.random.seed(case["seed"])
            via = np.asarray(must(lib(dup.value, n), "draw from a %s of the callable" % how))
            if not np.array_equal(first, via):
                raise Violation("copy_changes_law", "np.random.seed(%d) then a %s of the callable: draws differ from those of the "
                                "original after the same seeding; %s" % (case["seed"], how, ctx))
            lab.append("dup_" + how.split()[0])
    if k == "zero":
        import sempler.noise as noise
        fresh = np.asarray(must(lib(noise.zero(), n), "zero() from a fresh factory"))
        for nm, arr in (("first call", first), ("second call after the first result was overwritten", second),
                        ("call after re-seeding", again), ("fresh factory after earlier results were overwritten", fresh)):
            if arr.shape != (n,) or not (arr == 0).all():
                raise Violation("zero_not_zero", "zero(): %s returned %s; %s" % (nm, arr[:5].tolist(), ctx))
        return lab
    if k == "uniform":
        lo, hi = pr
        if n and not ((x >= lo).all() and (x < hi).all()):
            raise Violation("uniform_support", "values outside [%r, %r): min %r max %r; %s" % (lo, hi, float(x.min()), float(x.max()), ctx))
    if n >= N_LAW:
        if k == "normal":
            mu, var = pr
            sd = math.sqrt(var)
            mu4 = 3 * var * var
            cdf = lambda t: stats.norm_cdf(t, mu, sd)
            if var != 1:
                lab.append("nt")
        elif k == "uniform":
            lo, hi = pr
            mu, var = (lo + hi) / 2.0, (hi - lo) ** 2 / 12.0
            mu4 = (hi - lo) ** 4 / 80.0
            cdf = lambda t: stats.uniform_cdf(t, lo, hi)
            if (lo, hi) != (0, 1):
                lab.append("nt")
        else:
            mu, b = pr
            var, mu4 = 2.0 * b * b, 24.0 * b ** 4
            cdf = lambda t: stats.laplace_cdf(t, mu, b)
            if b != 1:
                lab.append("nt")
        zs = {"mean": stats.z_mean(x, mu, math.sqrt(var)), "var": stats.z_var(x, var, mu4), "autocorr": stats.z_autocorr(x)}
        for nm, z in zs.items():
            if not abs(z) <= stats.Z_MAX:
                raise Violation("law_%s" % nm, "z-score of the sample %s is %.1f (law mean %r variance %r; sample mean %r variance %r); %s"
                                % (nm, z, mu, var, float(x.mean()), float(x.var(ddof=1)), ctx))
        ks = stats.ks_scaled(x, cdf)
        if not ks <= stats.KS_MAX:
            raise Violation("law_ks", "sqrt(n)*KS distance to the documented law is %.2f; %s" % (ks, ctx))
        lab.append("law")
    return lab


def _nontrivial(case, labels):
    return "nt" in labels


def _dy(lo, hi, den=4):
    return st.integers(lo * den, hi * den).map(lambda k: k / den)


@st.composite
def noise_case(draw):
    k = draw(st.sampled_from(["normal", "normal", "normal", "uniform", "uniform", "laplace", "laplace", "zero"]))
    case = {"sub": "noise", "factory": k, "positional": draw(st.booleans()),
            "n": draw(st.sampled_from([N_LAW, N_LAW, N_LAW, 0, 1, 5, N_LAW, N_LAW, N_LAW, 0, 1, 5, 131072, 196608, 65536, 2097153])),
            "seed": draw(st.sampled_from([0, 1]) | st.integers(0, 2 ** 32 - 1)), "burn": draw(st.integers(1, 7)),
            "ptype": draw(st.sampled_from(["plain", "plain", "plain", "np_float64", "np_float32", "zero_d", "int32", "int64", "py_int"]))}
    if k == "normal":
        var = draw(st.sampled_from([2.0 ** -40, 1e-9, 1e-6, 0.01, 0.0625, 0.25, 0.5, 0.8, 1, 1.25, 2, 4, 9, 25, 100, 1e6]))
        case["args"] = {"mean": draw(_dy(-64, 64)), "var": var}
    elif k == "uniform":
        lo = draw(_dy(-64, 64))
        w = draw(st.sampled_from([2.0 ** -20, 0.125, 0.5, 1, 1, 2, 3, 10, 100, 4096]))
        if draw(st.integers(0, 5)) == 0:
            lo, w = -w, w                      # upper bound exactly 0
        elif draw(st.integers(0, 7)) == 0:
            lo = 0                             # lower bound exactly 0
        if case["ptype"] in ("int32", "int64", "py_int"):
            lo = draw(st.sampled_from([-100, -120, -30000, -64, 3]))
            w = draw(st.sampled_from([200, 220, 60000, 100, 7]))
        if case["ptype"] == "np_float32" and w < 1e-3 * max(1.0, abs(lo)):
            case["ptype"] = "np_float64"       # bounds a float32 cannot tell apart from their mid-point are not asked of anyone
        case["args"] = {"lo": lo, "hi": lo + w}
    elif k == "laplace":
        case["args"] = {"mean": draw(_dy(-64, 64)), "scale": draw(st.sampled_from([2.0 ** -30, 1e-6, 0.05, 0.25, 0.5, 1, 2, 2.5, 7, 30, 1e5]))}
    else:
        case["args"] = {}
    if k != "zero" and draw(st.integers(0, 9)) == 0:
        # defaults: drop one or both arguments
        keys = sorted(case["args"])
        drop = draw(st.sampled_from([keys, keys[:1], keys[1:]]))
        case["args"] = {kk: v for kk, v in case["args"].items() if kk not in drop}
        case["positional"] = False
        if k == "uniform" and "hi" in case["args"] and "lo" not in case["args"] and case["args"]["hi"] <= 0:
            case["args"]["hi"] = abs(case["args"]["hi"]) + 1
        if k == "uniform" and "lo" in case["args"] and "hi" not in case["args"] and case["args"]["lo"] >= 1:
            case["args"]["lo"] = -case["args"]["lo"]
    return case


def plan(tier, seed):
    jobs = []
    n = scaled(3200 if tier == "quick" else 48000)
    shards = 16 if tier == "quick" else 64
    for k in range(shards):
        jobs.append({"sub": "noise", "seed": seed, "shard": k, "n": max(1, n // shards), "cost": 5})
    jobs.append({"sub": "null", "seed": seed, "cost": 1})
    return jobs


def run(job):
    acc = Acc(job["sub"])
    if job["sub"] == "null":
        for k in range(4):
            case = {"sub": "null", "nargs": k}
            try:
                acc.record(case, check(case), True, by_construction=True)
            except Violation as v:
                acc.record(case, [], False)
                acc.violation(case, v)
        acc.exhaustive = True
    else:
        run_property(acc, noise_case(), check, _nontrivial, job["n"], job_seed(job))
        acc.exhaustive = False
    return acc


LEVEL_TEXT = ("Exploration with statistical acceptance regions of bounded false-alarm probability: generated parameterisations of "
              "every noise factory are sampled (n = 20,000 after seeding numpy's global generator with a drawn seed) and judged by "
              "variance-scaled z-scores of mean and variance with exact fourth moments, a Kolmogorov-Smirnov distance to the "
              "closed-form CDF and the lag-1 autocorrelation; shape, support, zero(), null() and reproducibility of one callable "
              "object across re-seeding are checked exactly.")
LEVEL_NOTE = ("Trusted: closed-form moments / CDFs in /verif/harness/stats.py; per-statistic false-alarm probability < 1e-12; "
              "deviations below the stated effect sizes are not detectable at this sample size.")
TECHNIQUE = "Hypothesis parameter generation + statistical oracle (z / KS bounds with bounded false-alarm rate) + exact reproducibility checks"
DESIGN_REF = "DESIGN.md section 4, C20"
