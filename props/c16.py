"""C16 - structural decompositions of a graph are exact and weight-preserving."""
import numpy as np
from hypothesis import strategies as st

from harness import graphs as G
from harness import strategies as S
from harness.core import Acc, Violation, fr, lib, must
from harness.hyp import job_seed, run_property, scaled
from props.gcommon import npints, pdag_codes

PROP = "C16"
RULE = ("Every PDAG with acyclic directed part on p<=4 nodes x every node subset S (int and float dtype), Hypothesis binary "
        "PDAGs p<=9, sparse PDAGs relabelled into 9..12 nodes and signed DAG weight matrices (incl. cancelling columns). "
        "Oracle: set-based definitions computed by the checker - only_directed + only_undirected == input entry-wise with "
        "original entries, skeleton symmetric 0/1, edge lists as sets with multiplicity one, edge_weights == {(i,j): W[i,j]} "
        "over the non-zero entries, vstructures == unshielded colliders (i,c,j) with i<j, moral_graph == skeleton + married "
        "parents (DAG inputs), induced_subgraph, is_clique, is_complete and degrees from the skeleton. Non-trivial = a "
        "collider whose parents are joined by an (un)directed edge, or a weighted input, or S neither empty nor full. Also: relabelling into 9..70 labels, further dtypes, tiny weights, colliders with 30..40 parents, complete graphs minus a few edges on 300..600 nodes.")
ASSUMPTIONS = [
    "weighted matrices with undirected edges are outside the stated domain (A + A.T may cancel) and are not generated",
    "moral_graph is checked on every binary PDAG and on weighted DAGs (parents = tails of directed edges)",
    "element types / order of lists are free",
]


def _mat(case):
    if "W" in case:
        M = [[fr(x) for x in row] for row in case["W"]]
        if case.get("dtype") == "int" and all(x.denominator == 1 for r in M for x in r):
            return np.array([[int(x) for x in r] for r in M], dtype=np.int64)
        from props.gcommon import relayout
        return relayout(np.array([[float(x) for x in r] for r in M], dtype=float))
    from props.gcommon import DTYPES, relayout
    return relayout(np.array(case["A"], dtype=DTYPES.get(case.get("dtype", "int"))))


def check_big(case):
    """is_complete / degrees / skeleton / is_clique on graphs with hundreds of nodes (numpy-level oracle)."""
    import sempler.utils as utils
    p, missing = case["p"], [tuple(e) for e in case["missing"]]
    order = [(case["a"] * k + 3) % p for k in range(p)]
    pos = np.empty(p, dtype=int)
    pos[order] = np.arange(p)
    A = (pos[:, None] < pos[None, :]).astype(float)                   # complete DAG in a scrambled causal order
    if case.get("weighted"):
        A = A * np.where((np.add.outer(np.arange(p), np.arange(p)) % 3) == 0, -1.5, 0.75)
    for (i, j) in missing:
        A[i, j] = A[j, i] = 0
    if case.get("undirected"):
        A = ((A + A.T) != 0).astype(int)
    keep = A.copy()
    adj = (A != 0) | (A.T != 0)
    want_complete = not missing
    got = must(lib(utils.is_complete, A), "is_complete")
    if bool(got) != want_complete:
        raise Violation("is_complete_wrong", "is_complete = %r for the complete graph on %d nodes minus the %d edge(s) %s"
                        % (got, p, len(missing), missing))
    deg = np.asarray(must(lib(utils.degrees, A), "degrees"))
    if deg.shape != (p,) or not np.array_equal(deg.astype(int), adj.sum(axis=0)):
        raise Violation("degrees_wrong", "degrees wrong on the %d-node near-complete graph" % p)
    sk = np.asarray(must(lib(utils.skeleton, A), "skeleton"))
    if sk.shape != (p, p) or not np.array_equal(sk != 0, adj):
        raise Violation("skeleton_wrong", "skeleton wrong on the %d-node near-complete graph" % p)
    S = set(range(0, p, 2))
    cl = must(lib(utils.is_clique, npints(set(S), len(S), True), A), "is_clique")
    want_cl = not any(i in S and j in S for (i, j) in missing)
    if bool(cl) != want_cl:
        raise Violation("is_clique_wrong", "is_clique(even nodes) = %r, expected %r (missing %s)" % (cl, want_cl, missing))
    if not np.array_equal(A, keep):
        raise Violation("input_modified", "a decomposition function modified its argument")
    return ["big_graph", "weighted" if case.get("weighted") else "binary", "proper_S"]


def check_layered(case):
    """moral_graph / vstructures / skeleton / edge lists on complete layers with 128 and more common children (or parents):
    numpy-level oracle in int64 (the bitset oracle is for small graphs)."""
    import sempler.utils as utils
    from props.c15 import _layered
    A = _layered(case["layers"], case["a"], case.get("weighted", False))
    if case.get("dtype8"):
        A = A.astype(case["dtype8"])
    if case.get("marry"):
        # some of the first layer's nodes joined by undirected edges: those pairs are shielded (no v-structure)
        first = np.nonzero((A != 0).sum(axis=0) == 0)[0]
        for a_, b_ in zip(first[::2], first[1::2]):
            A[a_, b_] = A[b_, a_] = 1
    keep = A.copy()
    p = len(A)
    D = (A != 0) & (A.T == 0)
    Di = D.astype(np.int64)
    common = (Di @ Di.T) > 0                     # i and j have a common child
    np.fill_diagonal(common, False)
    sk = (A != 0) | (A.T != 0)
    want_moral = sk | common
    mg = np.asarray(must(lib(utils.moral_graph, A), "moral_graph(layers %s)" % case["layers"]))
    if mg.shape != (p, p) or not np.array_equal(mg != 0, want_moral):
        bad = np.argwhere((mg != 0) != want_moral)
        raise Violation("moral_wrong", "moral_graph on complete layers %s (p=%d): %d entries differ from skeleton + married parents, "
                        "e.g. %s" % (case["layers"], p, len(bad), bad[:3].tolist()))
    vs = must(lib(utils.vstructures, A), "vstructures(layers)")
    got = {(int(a), int(c), int(b)) for (a, c, b) in vs}
    n_want = 0
    for c in range(p):
        pas = np.nonzero(D[:, c])[0]
        k = len(pas)
        if k >= 2:
            n_want += int((k * (k - 1) // 2) - np.triu(sk[np.ix_(pas, pas)], 1).sum())
    if len(got) != len(vs) or len(got) != n_want or any(not (i < j and D[i, c] and D[j, c] and not sk[i, j]) for (i, c, j) in list(got)[:5000]):
        raise Violation("vstructures_wrong", "vstructures on complete layers %s: %d returned (%d distinct), %d unshielded colliders exist"
                        % (case["layers"], len(vs), len(got), n_want))
    skm = np.asarray(must(lib(utils.skeleton, A), "skeleton(layers)"))
    if not np.array_equal(skm != 0, sk):
        raise Violation("skeleton_wrong", "skeleton wrong on complete layers %s" % case["layers"])
    if not np.array_equal(A, keep):
        raise Violation("input_modified", "a decomposition function modified its argument")
    return ["layered", "fan_ge_128", "proper_S", "weighted" if case.get("weighted") else "binary"]


def check(case):
    if case["sub"] == "big":
        return check_big(case)
    if case["sub"] == "layered":
        return check_layered(case)
    import sempler.utils as utils
    A = _mat(case)
    keep = A.copy()
    rows = G.rows_from_matrix(A)
    p = len(rows)
    d, u = G.split(rows)
    sk = G.skeleton(rows)
    ctx = "A=%s" % A.tolist()
    lab = []
    weighted = "W" in case
    if weighted:
        lab.append("weighted")
        if (A < 0).any():
            lab.append("neg")

    od = np.asarray(must(lib(utils.only_directed, A), "only_directed"))
    ou = np.asarray(must(lib(utils.only_undirected, A), "only_undirected"))
    want_d = np.where(np.array(G.lists_from_rows(d)).reshape(p, p) != 0, A, 0)
    want_u = np.where(np.array(G.lists_from_rows(u)).reshape(p, p) != 0, A, 0)
    if od.shape != (p, p) or not (od == want_d).all():
        raise Violation("only_directed_wrong", "only_directed = %s, expected %s; %s" % (od.tolist(), want_d.tolist(), ctx))
    if ou.shape != (p, p) or not (ou == want_u).all():
        raise Violation("only_undirected_wrong", "only_undirected = %s, expected %s; %s" % (ou.tolist(), want_u.tolist(), ctx))
    if not ((od + ou) == A).all():
        raise Violation("split_not_sum", "only_directed + only_undirected != input; %s" % ctx)

    skm = np.asarray(must(lib(utils.skeleton, A), "skeleton"))
    want_sk = np.array(G.lists_from_rows(sk)).reshape(p, p)
    if skm.shape != (p, p) or not (skm == want_sk).all():
        raise Violation("skeleton_wrong", "skeleton = %s, expected %s; %s" % (skm.tolist(), want_sk.tolist(), ctx))

    ue = [tuple(int(x) for x in e) for e in must(lib(utils.undirected_edges, A), "undirected_edges")]
    want_ue = {frozenset((i, j)) for i in range(p) for j in G.bits(u[i]) if i < j}
    if len(ue) != len(want_ue) or {frozenset(e) for e in ue} != want_ue or any(len(set(e)) != 2 for e in ue):
        raise Violation("undirected_edges_wrong", "undirected_edges = %s, expected the %d edges %s; %s"
                        % (ue, len(want_ue), sorted(tuple(sorted(e)) for e in want_ue), ctx))
    de = [tuple(int(x) for x in e) for e in must(lib(utils.directed_edges, A), "directed_edges")]
    want_de = {(i, j) for i in range(p) for j in G.bits(d[i])}
    if len(de) != len(want_de) or set(de) != want_de:
        raise Violation("directed_edges_wrong", "directed_edges = %s, expected %s; %s" % (sorted(de), sorted(want_de), ctx))

    ew = must(lib(utils.edge_weights, A), "edge_weights")
    want_ew = {(i, j): A[i, j] for i in range(p) for j in range(p) if A[i, j] != 0}
    got_ew = {(int(k[0]), int(k[1])): v for k, v in dict(ew).items()}
    if set(got_ew) != set(want_ew) or any(got_ew[k] != want_ew[k] for k in want_ew) or len(ew) != len(want_ew):
        raise Violation("edge_weights_wrong", "edge_weights = %s, expected %s; %s" % (got_ew, want_ew, ctx))

    vs = must(lib(utils.vstructures, A), "vstructures")
    got_vs = {tuple(int(x) for x in v) for v in vs}
    want_vs = set(G.vstructures(rows))
    if got_vs != want_vs or len(vs) != len(want_vs):
        raise Violation("vstructures_wrong", "vstructures = %s, expected %s; %s" % (sorted(got_vs), sorted(want_vs), ctx))
    # shielded colliders exist?
    pa = G.transpose(d)
    for c in range(p):
        ps = G.bits(pa[c])
        if any(sk[a] >> b & 1 for a in ps for b in ps if a < b):
            lab.append("shielded_collider")
            break
    if want_vs:
        lab.append("has_v")

    deg = np.asarray(must(lib(utils.degrees, A), "degrees"))
    want_deg = [bin(sk[i]).count("1") for i in range(p)]
    if deg.shape != (p,) or [int(x) for x in deg] != want_deg:
        raise Violation("degrees_wrong", "degrees = %s, expected %s; %s" % (deg.tolist(), want_deg, ctx))

    comp = must(lib(utils.is_complete, A), "is_complete")
    want_comp = all(sk[i] == ((1 << p) - 1) & ~(1 << i) for i in range(p))
    if bool(comp) != want_comp:
        raise Violation("is_complete_wrong", "is_complete = %r, expected %r; %s" % (comp, want_comp, ctx))

    if not any(u) or not weighted:
        # the statement defines it for any PDAG: skeleton plus an edge between every two parents (directed edges) of a common child
        mg = np.asarray(must(lib(utils.moral_graph, A), "moral_graph"))
        want_m = list(sk)
        for c in range(p):
            ps = G.bits(pa[c])
            for a in ps:
                for b in ps:
                    if a != b:
                        want_m[a] |= 1 << b
        want_mm = np.array(G.lists_from_rows(tuple(want_m))).reshape(p, p)
        if mg.shape != (p, p) or not (mg == want_mm).all():
            raise Violation("moral_graph_wrong", "moral_graph = %s, expected %s; %s" % (mg.tolist(), want_mm.tolist(), ctx))
        lab.append("moral")

    for Sl in case.get("subsets", []):
        Sset = set(Sl)
        ind = np.asarray(must(lib(utils.induced_subgraph, npints(set(Sset), len(Sset) + p, True), A), "induced_subgraph"))
        mask = np.zeros((p, p), dtype=bool)
        for i in Sset:
            for j in Sset:
                mask[i, j] = True
        want_ind = np.where(mask, A, 0)
        if ind.shape != (p, p) or not (ind == want_ind).all():
            raise Violation("induced_subgraph_wrong", "induced_subgraph(%s) = %s, expected %s; %s" % (sorted(Sset), ind.tolist(), want_ind.tolist(), ctx))
        cl = must(lib(utils.is_clique, npints(set(Sset), len(Sset) + p + 1, True), A), "is_clique")
        want_cl = all(sk[a] >> b & 1 for a in Sset for b in Sset if a != b)
        if bool(cl) != want_cl:
            raise Violation("is_clique_wrong", "is_clique(%s) = %r, expected %r; %s" % (sorted(Sset), cl, want_cl, ctx))
        if 0 < len(Sset) < p:
            lab.append("proper_S")
    if not (A == keep).all():
        raise Violation("input_modified", "a decomposition function modified its argument")
    return sorted(set(lab))


def _nontrivial(case, labels):
    return any(l in labels for l in ("shielded_collider", "weighted", "proper_S"))


def _run_exh(acc, job):
    p = job["p"]
    subsets = [G.bits(m) for m in range(1 << p)]
    for k, (code, P) in enumerate(pdag_codes(p)):
        if k % job["nshards"] != job["shard"]:
            continue
        case = {"sub": "pdag_exh", "A": G.lists_from_rows(P), "dtype": ["int", "float", "uint8", "bool", "int32", "float32"][code % 6], "subsets": subsets}
        try:
            lab = check(case)
            acc.record(case, lab, _nontrivial(case, lab), by_construction=True, sample=(code % 997 == 1))
        except Violation as v:
            acc.record(case, [], False)
            acc.violation(case, v)
    acc.exhaustive = True


@st.composite
def _hyp_case(draw):
    kind = draw(st.sampled_from(["pdag", "embedded", "weighted", "weighted", "weighted_embedded", "faithless", "wide", "wide_weighted", "star"]))
    if kind == "star":
        # a collider with 30..40 parents, some of them joined by (un)directed edges
        k = draw(st.sampled_from([30, 31, 32, 33, 34, 40]))
        p = k + draw(st.integers(1, 4))
        lab = list(draw(st.permutations(list(range(p)))))
        c, pars = lab[0], lab[1:k + 1]
        A = [[0] * p for _ in range(p)]
        for q in pars:
            A[q][c] = 1
        for _ in range(draw(st.integers(1, 4))):
            i, j = draw(st.sampled_from(pars)), draw(st.sampled_from(pars))
            if i != j and not A[i][j] and not A[j][i]:
                if draw(st.booleans()):
                    A[i][j] = A[j][i] = 1
                else:
                    A[min(i, j)][max(i, j)] = 1
        case = {"A": A, "dtype": draw(st.sampled_from(["int", "float"])), "subsets": [sorted(pars[:3] + [c])], "sub": "hyp", "kind": kind}
        return case
    if kind == "pdag":
        case = {"A": draw(S.pdag(1, 9, weights=(3, 3, 2))), "dtype": draw(st.sampled_from(["int", "float", "uint8", "bool", "float32"]))}
    elif kind == "wide":
        case = {"A": draw(S.embedded_wide(draw(S.pdag(2, 8, weights=(2, 3, 2))))), "dtype": draw(st.sampled_from(["int", "float", "uint8", "bool"]))}
    elif kind == "wide_weighted":
        W, cls = draw(S.weighted_dag(2, 8))
        case = {"W": draw(S.embedded_wide(W)), "dtype": "float"}
    elif kind == "embedded":
        case = {"A": draw(S.embedded(draw(S.pdag(2, 6, weights=(2, 3, 2))))), "dtype": draw(st.sampled_from(["int", "float"]))}
    elif kind == "weighted":
        W, cls = draw(S.weighted_dag(1, 9))
        case = {"W": W, "dtype": draw(st.sampled_from(["int", "float"]))}
    elif kind == "faithless":
        case = {"W": draw(S.faithless_dag(3, 7)), "dtype": "float"}
    else:
        W, cls = draw(S.weighted_dag(2, 6, shapes=("collider", "dense", "random")))
        case = {"W": draw(S.embedded(W)), "dtype": draw(st.sampled_from(["int", "float"]))}
    p = len(case.get("A", case.get("W")))
    case["subsets"] = draw(st.lists(st.lists(st.integers(0, p - 1), max_size=p, unique=True).map(sorted), min_size=1, max_size=3))
    case["sub"] = "hyp"
    case["kind"] = kind
    return case


def _hyp_check(case):
    return check(case) + ["kind_" + case["kind"]]


def plan(tier, seed):
    jobs = []
    for n, (p, miss) in enumerate([(447, 1), (448, 1), (500, 1), (500, 0), (600, 3), (300, 1)] + ([(1000, 2), (1415, 1)] if tier == "thorough" else [])):
        jobs.append({"sub": "big", "seed": seed, "p": p, "n_missing": miss, "index": n, "cost": 9})
    for k, layers in enumerate([[10, 190], [3, 150, 2], [140, 2], [2, 129, 3], [2, 256], [3, 512], [4, 1100]] + ([[12, 300], [260, 3]] if tier == "thorough" else [])):
        jobs.append({"sub": "layered", "seed": seed, "layers": layers, "index": k, "cost": 12})
    for p in (1, 2, 3):
        jobs.append({"sub": "pdag_exh", "p": p, "shard": 0, "nshards": 1, "seed": seed, "cost": 1})
    for k in range(16):
        jobs.append({"sub": "pdag_exh", "p": 4, "shard": k, "nshards": 16, "seed": seed, "cost": 10})
    n = scaled(12800 if tier == "quick" else 200000)
    shards = 16 if tier == "quick" else 64
    for k in range(shards):
        jobs.append({"sub": "hyp", "seed": seed, "shard": k, "n": max(1, n // shards), "cost": 8})
    return jobs


def run(job):
    acc = Acc(job["sub"])
    if job["sub"] == "big":
        p = job["p"]
        a = next(x for x in range(p // 3 + job["seed"] % 5, p) if np.gcd(x, p) == 1)
        missing = [[(7 * (k + 1) + job["seed"]) % p, (11 * (k + 1) + 3 * job["seed"] + 1) % p] for k in range(job["n_missing"])]
        missing = [e for e in missing if e[0] != e[1]]
        case = {"sub": "big", "p": p, "a": int(a), "missing": missing, "weighted": job["index"] % 2 == 0, "undirected": job["index"] % 3 == 2}
        try:
            acc.record(case, check(case), True, by_construction=True)
        except Violation as v:
            acc.record(case, [], False)
            acc.violation(case, v)
        acc.exhaustive = False
        return acc
    if job["sub"] == "layered":
        import math
        p = sum(job["layers"])
        a = next(x for x in range(5 + job["seed"] % 7, 5 + job["seed"] % 7 + 4 * p) if math.gcd(x, p) == 1)
        for weighted in (False, True, "uint8", "int8", "marry"):
            case = {"sub": "layered", "layers": job["layers"], "a": a, "weighted": weighted is True}
            if weighted in ("uint8", "int8"):
                case["dtype8"] = weighted
            if weighted == "marry":
                case["marry"] = True
            try:
                acc.record(case, check(case), True, by_construction=True)
            except Violation as v:
                acc.record(case, [], False)
                acc.violation(case, v)
        acc.exhaustive = False
        return acc
    if job["sub"] == "pdag_exh":
        _run_exh(acc, job)
    else:
        run_property(acc, _hyp_case(), _hyp_check, _nontrivial, job["n"], job_seed(job))
        acc.exhaustive = False
    return acc


def selfcheck():
    G.selfcheck()


LEVEL_TEXT = ("Exploration, exhaustive over every PDAG with acyclic directed part up to 4 nodes x every node subset; Hypothesis "
              "PDAGs to 9 nodes, graphs relabelled into 9-12 nodes (set-iteration-order effects) and signed DAG weight matrices "
              "beyond. Each decomposition is compared with a set-based definition computed by the checker.")
LEVEL_NOTE = "Trusted: the bitset definitions in /verif/harness/graphs.py and /verif/props/c16.py."
TECHNIQUE = "exhaustive small-PDAG enumeration + Hypothesis vs. set-based definitional oracles"
DESIGN_REF = "DESIGN.md section 4, C16"
