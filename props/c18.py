"""C18 - add_edges / remove_edges change exactly the requested number of edges."""
import numpy as np
from hypothesis import strategies as st

from harness import graphs as G
from harness import strategies as S
from harness.core import Acc, Violation, fr, lib, must, must_raise
from harness.hyp import job_seed, run_property, scaled
from props.gcommon import npint

PROP = "C18"
RULE = ("Every DAG on p<=4 nodes x every requested count 0..max+1 x 3 seeds (exhaustive grid), and Hypothesis DAGs p<=9 (binary, "
        "signed, cancelling and path-cancelling weights, int/float dtype, relabelled into 9..12 nodes), count drawn from "
        "{0, 1, .., feasible maximum, maximum+1, larger}, seeds incl. 0 and the default. Oracle: remove_edges -> pattern is a "
        "subset of the input's with exactly k fewer edges; add_edges -> superset with exactly k more edges, acyclic by the "
        "checker's DFS, no self-loop, no two-cycle; ValueError iff k exceeds #edges resp. p(p-1)/2 - #edges and success "
        "otherwise; same seed => same result; input unmodified. Non-trivial = 0 < k = feasible maximum, or k = maximum+1, "
        "or a weighted input. Also: relabelling into 13..33 labels, further dtypes, a 1,200-node path, almost complete DAGs on 64..100 scrambled nodes (also float16).")
ASSUMPTIONS = [
    "which edges are chosen is free; results are compared as 0/1 patterns",
    "DAG inputs only (the functions' documented domain)",
    "sizes / counts / integer bounds are generated as Python ints or signed numpy integers of 32 bits or more (DESIGN.md 8.7b)",
]


def _mat(case):
    if "W" in case:
        M = [[fr(x) for x in row] for row in case["W"]]
        if case.get("dtype") == "int" and all(x.denominator == 1 for r in M for x in r):
            return np.array([[int(x) for x in r] for r in M], dtype=np.int64)
        from props.gcommon import relayout
        return relayout(np.array([[float(x) for x in r] for r in M], dtype=float))
    from props.gcommon import DTYPES, relayout
    return relayout(np.array(case["A"], dtype=DTYPES.get(case.get("dtype", "int"))))


def check_long(case):
    """add_edges / remove_edges on a directed path through p ~ 1200 scrambled nodes (deep graphs)."""
    import sempler.utils as utils
    from props.gcommon import has_cycle_big
    p, a, k = case["p"], case["a"], case["k"]
    lab = [(a * i + 5) % p for i in range(p)]
    A = np.zeros((p, p))
    for i in range(p - 1):
        A[lab[i], lab[i + 1]] = 1.0 if i % 3 else -2.0
    keep = A.copy()
    pat = A != 0
    if case["op"] == "add":
        res = np.asarray(must(lib(utils.add_edges, A, k, random_state=case["seed"]), "add_edges(path on %d nodes, %d)" % (p, k)))
        got = res != 0
        if got.shape != (p, p) or (pat & ~got).any() or int(got.sum()) != p - 1 + k or np.diag(got).any() or (got & got.T).any() or has_cycle_big(got):
            raise Violation("add_wrong_long", "add_edges on a %d-node path: %d edges (expected %d), supergraph=%r, acyclic=%r"
                            % (p, int(got.sum()), p - 1 + k, not (pat & ~got).any(), not has_cycle_big(got)))
    else:
        res = np.asarray(must(lib(utils.remove_edges, A, k, random_state=case["seed"]), "remove_edges(path on %d nodes, %d)" % (p, k)))
        got = res != 0
        if got.shape != (p, p) or (got & ~pat).any() or int(got.sum()) != p - 1 - k:
            raise Violation("remove_wrong_long", "remove_edges on a %d-node path: %d edges left (expected %d)" % (p, int(got.sum()), p - 1 - k))
    if not np.array_equal(A, keep):
        raise Violation("input_modified", "%s_edges modified its argument" % case["op"])
    return ["long_path", "weighted", "op_" + case["op"]]


def check_dense(case):
    """add_edges / remove_edges on an almost complete DAG with 60..70 nodes in a scrambled causal order."""
    import sempler.utils as utils
    from props.gcommon import has_cycle_big
    p, a, k = case["p"], case["a"], case["k"]
    order = [(a * i + 1) % p for i in range(p)]
    pos = np.empty(p, dtype=int)
    pos[order] = np.arange(p)
    A = (pos[:, None] < pos[None, :]).astype(float)
    for (i, j) in case["missing"]:
        A[i, j] = A[j, i] = 0
    if case.get("weighted"):
        A = A * np.where((np.add.outer(np.arange(p), np.arange(p)) % 2) == 0, -2.0, 0.5)
    A = A.astype({"float16": np.float16, "float": float, "int": np.int64, "float32": np.float32}[case["dtype"]])
    keep = A.copy()
    pat = A != 0
    m = int(pat.sum())
    cap = p * (p - 1) // 2 - m
    what = "%s_edges(almost complete DAG on %d nodes (%s, %d edges), %d)" % (case["op"], p, case["dtype"], m, k)
    fn = utils.add_edges if case["op"] == "add" else utils.remove_edges
    o = lib(fn, A, k, random_state=case["seed"])
    top = cap if case["op"] == "add" else m
    if k > top:
        must_raise(o, ValueError, what + " [infeasible]")
        return ["dense_big", "infeasible", "boundary_over", "weighted"]
    got = np.asarray(must(o, what)) != 0
    if case["op"] == "add":
        if got.shape != (p, p) or (pat & ~got).any() or int(got.sum()) != m + k or np.diag(got).any() or (got & got.T).any() or has_cycle_big(got):
            raise Violation("add_wrong_dense", "%s returned %d edges (expected %d), supergraph=%r, two-cycle=%r, cyclic=%r"
                            % (what, int(got.sum()), m + k, not (pat & ~got).any(), bool((got & got.T).any()), has_cycle_big(got)))
    else:
        if got.shape != (p, p) or (got & ~pat).any() or int(got.sum()) != m - k:
            raise Violation("remove_wrong_dense", "%s left %d edges (expected %d)" % (what, int(got.sum()), m - k))
    if not np.array_equal(A, keep):
        raise Violation("input_modified", "%s modified its argument" % what)
    return ["dense_big", "feasible", "weighted"] + (["boundary_max"] if k == top else [])


def check(case):
    if case["sub"] == "dense_big":
        return check_dense(case)
    if case["sub"] == "long_path":
        return check_long(case)
    import sempler.utils as utils
    A = _mat(case)
    keep = A.copy()
    rows = G.rows_from_matrix(A)
    p = len(rows)
    m = sum(bin(r).count("1") for r in rows)
    cap = p * (p - 1) // 2 - m
    k = case["k"]
    seed_kw = {} if case.get("seed") is None else {"random_state": case["seed"]}
    lab = ["weighted"] if "W" in case else []
    ctx = "A=%s k=%d seed=%r" % (A.tolist(), k, case.get("seed"))

    def pattern(res, what):
        res = np.asarray(res)
        if res.shape != (p, p):
            raise Violation("bad_shape", "%s returned shape %r; %s" % (what, res.shape, ctx))
        return G.rows_from_matrix(res)

    if case["op"] == "remove":
        o = lib(utils.remove_edges, A, npint(k, k + len(A) + int(case.get("seed") or 0)), **seed_kw)
        if k > m:
            must_raise(o, ValueError, "remove_edges(k > #edges)")
            lab.append("infeasible")
            if k == m + 1:
                lab.append("boundary_over")
        else:
            got = pattern(must(o, "remove_edges(feasible)"), "remove_edges")
            if any(g & ~r for g, r in zip(got, rows)):
                raise Violation("remove_not_subgraph", "remove_edges result %s has edges not in the input; %s" % (G.lists_from_rows(got), ctx))
            n = sum(bin(r).count("1") for r in got)
            if n != m - k:
                raise Violation("remove_wrong_count", "remove_edges removed %d edges instead of %d; %s" % (m - n, k, ctx))
            again = pattern(must(lib(utils.remove_edges, A, k, **seed_kw), "remove_edges(repeat)"), "remove_edges")
            if again != got:
                raise Violation("remove_not_deterministic", "two remove_edges calls with the same random_state differ; %s" % ctx)
            if 0 < k == m:
                lab.append("boundary_max")
            lab.append("feasible")
    else:
        o = lib(utils.add_edges, A, npint(k, k + len(A) + 1 + int(case.get("seed") or 0)), **seed_kw)
        if k > cap:
            must_raise(o, ValueError, "add_edges(k > capacity)")
            lab.append("infeasible")
            if k == cap + 1:
                lab.append("boundary_over")
        else:
            got = pattern(must(o, "add_edges(feasible)"), "add_edges")
            if any(r & ~g for g, r in zip(got, rows)):
                raise Violation("add_not_supergraph", "add_edges result %s lost an input edge; %s" % (G.lists_from_rows(got), ctx))
            n = sum(bin(r).count("1") for r in got)
            if n != m + k:
                raise Violation("add_wrong_count", "add_edges added %d edges instead of %d; %s" % (n - m, k, ctx))
            if any(got[i] >> i & 1 for i in range(p)):
                raise Violation("add_selfloop", "add_edges created a self-loop; %s" % ctx)
            if any(got[i] >> j & 1 and got[j] >> i & 1 for i in range(p) for j in range(i + 1, p)):
                raise Violation("add_twocycle", "add_edges created a two-cycle; %s" % ctx)
            if G.has_cycle_dfs(got):
                raise Violation("add_cycle", "add_edges result %s has a directed cycle; %s" % (G.lists_from_rows(got), ctx))
            again = pattern(must(lib(utils.add_edges, A, k, **seed_kw), "add_edges(repeat)"), "add_edges")
            if again != got:
                raise Violation("add_not_deterministic", "two add_edges calls with the same random_state differ; %s" % ctx)
            if 0 < k == cap:
                lab.append("boundary_max")
            lab.append("feasible")
    if not (A == keep).all():
        raise Violation("input_modified", "%s_edges modified its argument; %s" % (case["op"], ctx))
    return lab + ["op_" + case["op"]]


def _nontrivial(case, labels):
    return any(l in labels for l in ("boundary_max", "boundary_over", "weighted"))


def _run_exh(acc, job):
    for p in job["ps"]:
        dags = G.all_dags(p)
        for n, D in enumerate(dags):
            if n % job["nshards"] != job["shard"]:
                continue
            m = sum(bin(r).count("1") for r in D)
            cap = p * (p - 1) // 2 - m
            for op, top in (("remove", m), ("add", cap)):
                for k in range(0, top + 2):
                    for seed in (0, 1 + n % 5, None):
                        case = {"sub": "grid_exh", "A": G.lists_from_rows(D), "dtype": ["int", "float", "uint8", "bool", "int32", "float32"][(n + k) % 6],
                                "op": op, "k": k, "seed": seed}
                        try:
                            lab = check(case)
                            acc.record(case, lab, _nontrivial(case, lab), by_construction=True, sample=((n * 31 + k) % 997 == 3))
                        except Violation as v:
                            acc.record(case, [], False)
                            acc.violation(case, v)
    acc.exhaustive = True


@st.composite
def _hyp_case(draw):
    kind = draw(st.sampled_from(["binary", "weighted", "weighted", "faithless", "embedded", "wide"]))
    if kind == "binary":
        case = {"A": draw(S.dag_pattern(1, 9)), "dtype": draw(st.sampled_from(["int", "float", "uint8", "bool", "float32"]))}
    elif kind == "weighted":
        W, cls = draw(S.weighted_dag(1, 9))
        case = {"W": W, "dtype": draw(st.sampled_from(["int", "float"]))}
    elif kind == "faithless":
        case = {"W": draw(S.faithless_dag(3, 7)), "dtype": "float"}
    elif kind == "wide":
        W, cls = draw(S.weighted_dag(2, 7))
        B = draw(S.embedded_wide(W))
        B = B if len(B) <= 33 else draw(S.embedded(W, 13, 33))       # capacity p(p-1)/2 stays affordable for "add the maximum"
        case = {"W": B, "dtype": "float"}
    else:
        W, cls = draw(S.weighted_dag(2, 6))
        case = {"W": draw(S.embedded(W, 9, 11)), "dtype": "float"}
    M = case.get("A", case.get("W"))
    p = len(M)
    m = sum(1 for i in range(p) for j in range(p) if M[i][j] != 0)
    op = draw(st.sampled_from(["remove", "add"]))
    top = m if op == "remove" else p * (p - 1) // 2 - m
    k = draw(st.sampled_from(["zero", "one", "mid", "max", "over", "far"]))
    case["k"] = {"zero": 0, "one": min(1, top + 1), "mid": draw(st.integers(0, max(0, top))), "max": top, "over": top + 1,
                 "far": top + draw(st.integers(2, 5))}[k]
    case["op"] = op
    case["seed"] = draw(st.sampled_from([0, 0, None, 1, 42]) | st.integers(0, 2 ** 32 - 1))
    case["sub"] = "hyp"
    case["kind"] = kind
    return case


def _hyp_check(case):
    return check(case) + ["kind_" + case["kind"]]


def plan(tier, seed):
    jobs = [{"sub": "grid_exh", "ps": [1, 2, 3], "shard": 0, "nshards": 1, "seed": seed, "cost": 2}]
    for n in range(12 if tier == "quick" else 60):
        jobs.append({"sub": "dense_big", "seed": seed, "index": n, "cost": 7})
    for n in (100, 101, 102, 103):      # hundreds of insertions on a dense 72 / 90-node DAG (path counts beyond 2^63 on the way)
        jobs.append({"sub": "dense_big", "seed": seed, "index": n, "cost": 40})
    for n, (p, op) in enumerate([(1200, "add"), (1300, "remove")] + ([(1500, "add"), (2000, "add")] if tier == "thorough" else [])):
        jobs.append({"sub": "long_path", "seed": seed, "p": p, "op": op, "cost": 50})
    for k in range(16):
        jobs.append({"sub": "grid_exh", "ps": [4], "shard": k, "nshards": 16, "seed": seed, "cost": 6})
    n = scaled(16000 if tier == "quick" else 240000)
    shards = 16 if tier == "quick" else 64
    for k in range(shards):
        jobs.append({"sub": "hyp", "seed": seed, "shard": k, "n": max(1, n // shards), "cost": 8})
    return jobs


def run(job):
    acc = Acc(job["sub"])
    if job["sub"] == "dense_big":
        n = job["index"]
        p = [66, 72, 80, 90, 100, 64][n % 6]
        a = next(x for x in range(p // 3 + (job["seed"] + n) % 7, p) if np.gcd(x, p) == 1)
        nm = [3, 5, 1, 30, 8, 2][(n // 2) % 6]
        if n >= 100:
            p, nm = [72, 90, 80, 90][n - 100], [170, 190, 0, 0][n - 100]
            a = next(x for x in range(p // 3 + (job["seed"] + n) % 7, p) if np.gcd(x, p) == 1)
        missing = []
        if n == 103:
            a = 1                      # the same family in the natural order, a few of the longest edges missing as well
            order = [(i + 1) % p for i in range(p)]
            missing = [[order[i], order[i + d]] for d in (1, 2) for i in range(p - d)] + \
                      [[order[x], order[y]] for (x, y) in [(0, p - 1), (0, p - 2), (1, p - 1), (1, p - 2), (2, p - 1), (0, p - 3)]]
        if n == 102:
            # every edge between nodes one or two steps apart in the causal order is missing (the long ones are all there):
            # putting them back multiplies the number of directed paths at every step
            order = [(a * i + 1) % p for i in range(p)]
            missing = [[order[i], order[i + d]] for d in (1, 2) for i in range(p - d)]
        for t in range(nm):
            i, j = (5 * t + n + job["seed"]) % p, (9 * t + 3 * n + 1 + (t // p)) % p
            if i != j and [i, j] not in missing and [j, i] not in missing:
                missing.append([i, j])
        op = "add" if (n % 3 or n >= 100) else "remove"
        k = [len(missing), 1, len(missing) + 1, max(len(missing) - 1, 0)][n % 4] if op == "add" else [1, 12, 0][n % 3]
        if n >= 100:
            k = len(missing) - (n - 100) % 2
        case = {"sub": "dense_big", "p": p, "a": int(a), "missing": missing, "k": k, "op": op, "seed": (job["seed"] + n) % 100,
                "dtype": ["float", "float16", "int", "float16", "float32"][n % 5], "weighted": n % 2 == 0}
        try:
            acc.record(case, check(case), True, by_construction=True, sample=(n == 1))
        except Violation as v:
            acc.record(case, [], False)
            acc.violation(case, v)
        acc.exhaustive = False
    elif job["sub"] == "long_path":
        p = job["p"]
        a = next(x for x in range(p // 3 + job["seed"] % 11, p) if np.gcd(x, p) == 1)
        case = {"sub": "long_path", "p": p, "a": int(a), "k": 20, "op": job["op"], "seed": job["seed"] % 1000}
        try:
            acc.record(case, check(case), True, by_construction=True)
        except Violation as v:
            acc.record(case, [], False)
            acc.violation(case, v)
        acc.exhaustive = False
    elif job["sub"] == "grid_exh":
        _run_exh(acc, job)
    else:
        run_property(acc, _hyp_case(), _hyp_check, _nontrivial, job["n"], job_seed(job))
        acc.exhaustive = False
    return acc


LEVEL_TEXT = ("Exploration: exhaustive grid over every DAG up to 4 nodes x every requested count from 0 to one past the feasible "
              "maximum x three seeds, and Hypothesis-generated binary / signed / cancelling weight matrices up to 12 labels, all "
              "judged by a validity predicate (sub/supergraph, exact edge count, acyclicity by an independent DFS, exception iff "
              "infeasible, determinism, input untouched). The pinned suite never executes these functions.")
LEVEL_NOTE = "Trusted: DFS acyclicity oracle in /verif/harness/graphs.py. Sizes above 4 nodes sampled."
TECHNIQUE = "exhaustive (DAG, count, seed) grid + Hypothesis vs. validity-predicate oracle"
DESIGN_REF = "DESIGN.md section 4, C18"
