"""C02 - ANM samples satisfy the structural assignments row by row."""
import numpy as np
from hypothesis import strategies as st

from harness import graphs as G
from harness import strategies as S
from harness.core import Acc, Violation, fr, lib, must
from harness.hyp import job_seed, run_property, scaled

PROP = "C02"
RULE = ("Hypothesis: DAG adjacency / weight matrices (binary, signed, column-cancelling; p<=8, and small graphs relabelled into "
        "9..12 nodes), n in {0,1,2,7,50}; assignments from a grammar of asymmetric bounded functions of the parent block "
        "(sum_c a_c*g_c(X[:,c]) with distinct a_c, g_c in {id, sin, tanh, abs, tanh^2}, optional product of two columns, "
        "constants) returning shape (n,), (n,1) or a scalar, None / functions.null for parentless nodes; every assignment "
        "records the block it was handed. Noise / intervention callables are deterministic recorders (closures, callable "
        "objects deep-copied by the constructor, and 'table' callables that hand out a view of a buffer they keep). "
        "Interventions: disjoint do / shift / noise targets, or do overlapping shift and/or noise; two consecutive sample "
        "calls on the same model with different interventions. Oracle: replay - for the final matrix X and every variable i: "
        "do => column equals a logged draw of the do callable; otherwise X[:,i] - f_i(X[:, pa(i) ascending]) (f_i re-evaluated "
        "by the checker) equals a logged noise draw (+ a logged shift draw | the new noise's draw); parent sets recomputed "
        "from the non-zero pattern; recorded blocks must be the final parent columns in increasing index order; shape (n,p). "
        "Non-trivial = some node has >=2 parents with an asymmetric assignment and (an intervention overlap, a cancelling "
        "column, or a directed path of length >=2). Also: models relabelled into 13..70 variables, in-place-rectifying and falsy-callable assignments, table-backed noise callables, tiny weights.")
ASSUMPTIONS = [
    "a callable may be called more than once: 'a draw' means any draw logged during the call",
    "simultaneous shift + noise intervention on one target has no documented rule and is not generated",
    "tolerance rtol 1e-12 / atol 1e-9 on the residual: the oracle evaluates the same Python functions on the same float columns",
]

GS = {
    "id": lambda x: x,
    "sin": np.sin,
    "tanh": np.tanh,
    "abs": np.abs,
    "sqtanh": lambda x: np.tanh(x) ** 2,
}


class Recorder:
    """Deterministic 'distribution': draw k of stream `tag` is base + step*arange(n) + 0.37*k."""

    def __init__(self, tag, kind="fresh"):
        self.tag = tag
        self.kind = kind
        self.log = []
        self.calls = 0
        self.table = self._values(64, 0) if kind == "table" else None
        self.table_pristine = None if self.table is None else self.table.copy()

    def _values(self, n, k):
        if self.kind == "int":
            # integer-typed draws (counts): the sample must still hold real-valued assignment results
            return (np.arange(n, dtype=np.int64) * (1 + self.tag % 3) + 7 * k + self.tag) % 11 - 5
        base = ((self.tag * 37) % 101) / 17.0 - 3.0
        step = 0.013 * ((self.tag % 7) + 1)
        return base + step * np.arange(n) + 0.37 * k + 0.5 * np.sin(np.arange(n) * (1 + self.tag % 5))

    def __call__(self, n):
        k = self.calls
        self.calls += 1
        if self.kind == "table":
            out = self.table[:n]
            self.log.append(self.table_pristine[:n].copy())
            return out
        out = self._values(n, k)
        self.log.append(out.copy())
        return out


def closure_recorder(tag, kind="fresh"):
    rec = Recorder(tag, kind)

    def draw(n):
        return rec(n)
    draw.rec = rec
    return draw


class FalsyAssignment:
    """A perfectly good callable whose truth value happens to be False (like numpy.poly1d of order 0, or any
    callable container that is empty): assignment = value + sum of tanh(parents)."""

    def __init__(self, value, blocks):
        self.value = value
        self.blocks = blocks

    def __len__(self):
        return 0

    def __call__(self, Xb):
        if self.blocks is not None:
            self.blocks.append(np.array(Xb, copy=True))
        return self.value + np.tanh(np.asarray(Xb, dtype=float)).sum(axis=1)

    def __deepcopy__(self, memo):
        return FalsyAssignment(self.value, self.blocks)          # keep logging into the checker's list


def make_assignment(spec, blocks=None):
    """Assignment function from its JSON spec; if `blocks` is a list, every block handed in is recorded."""
    kind = spec["kind"]
    if kind == "none":
        return None
    if kind == "null":
        import sempler.functions as functions
        return functions.null
    if kind == "falsy":
        return FalsyAssignment(float(spec["value"]), blocks)

    def f(Xb):
        if blocks is not None:
            blocks.append(np.array(Xb, copy=True))
        Xb = np.asarray(Xb, dtype=float)
        n = Xb.shape[0]
        if kind == "zero":
            out = np.zeros(n)
        elif kind == "const":
            return float(spec["value"])
        elif kind == "inplace":
            # a function that rectifies the block it was handed IN PLACE before using it: legal for a callable, and
            # harmless as long as it is handed the sampled parent values (not a window onto the sample matrix)
            Xb = np.asarray(Xb)
            if blocks is not None:
                np.maximum(Xb, 0, out=Xb) if Xb.flags.writeable and Xb.dtype == float else None
            Xr = np.maximum(np.asarray(Xb, dtype=float), 0)
            out = np.zeros(n)
            for c, a in enumerate(spec["coef"]):
                out = out + a * Xr[:, c]
        else:
            out = np.zeros(n)
            for c, (a, g) in enumerate(zip(spec["coef"], spec["g"])):
                out = out + a * GS[g](Xb[:, c])
            if kind == "prod" and Xb.shape[1] >= 2:
                out = out + spec["pcoef"] * np.tanh(Xb[:, 0]) * np.sin(Xb[:, 1] + 0.3)
        if spec.get("ret") == "col":
            return out.reshape(n, 1)
        return out
    # the same function behind a signature with optional parameters - as many parameters in total as the variable has
    # parents (the assignment is still called with ONE block of parent columns)
    k = len(spec.get("coef", []))
    if k in (2, 3, 4) and int(abs(float(spec["coef"][0])) * 8) % 2 == 0:
        if k == 2:
            return lambda Xb, scale=1.0: f(Xb)
        if k == 3:
            def f3(Xb, scale=0.5, offset=1.0):
                return f(Xb)
            return f3
        return lambda Xb, a=1, b=0, clip=None: f(Xb)
    return f


def _model(case):
    if "W" in case:
        A = np.array([[float(fr(x)) for x in row] for row in case["W"]], dtype=float)
        if case.get("dtype") == "int" and (A == np.round(A)).all():
            A = A.astype(int)
    else:
        A = np.array(case["A"], dtype=float if case.get("dtype") == "float" else int)
    from props.gcommon import relayout
    return relayout(A)


def _call_dicts(call, p):
    out = {}
    for nm in ("do", "shift", "noise"):
        d = {}
        for t, spec in call.get(nm, {}).items():
            tag = {"do": 1000, "shift": 2000, "noise": 3000}[nm] + int(t)
            d[int(t)] = Recorder(tag, "int" if INT_DRAWS[0] else spec) if spec != "closure" or INT_DRAWS[0] else closure_recorder(tag)
        out[nm] = d
    return out


INT_DRAWS = [False]


def _rec(obj):
    return obj.rec if hasattr(obj, "rec") else obj


def _close(a, b):
    a, b = np.asarray(a, dtype=float), np.asarray(b, dtype=float)
    return a.shape == b.shape and np.allclose(a, b, rtol=1e-12, atol=1e-9)


def check(case):
    import sempler
    A = _model(case)
    p = len(A)
    INT_DRAWS[0] = bool(case.get("int_draws"))
    rows = G.rows_from_matrix(A)
    pa = [sorted(G.bits(x)) for x in G.transpose(rows)]
    n = case["n"]
    blocks = [[] for _ in range(p)]
    assignments = [make_assignment(case["assign"][i], blocks[i]) for i in range(p)]
    twins = [make_assignment(case["assign"][i], None) for i in range(p)]
    noises = []
    for i in range(p):
        kind = case["noise_kinds"][i]
        if case.get("int_draws"):
            kind = "int"
        noises.append(closure_recorder(i, "fresh") if kind == "closure" else Recorder(i, kind if kind in ("table", "int") else "fresh"))
    keepA = A.copy()
    anm = must(lib(sempler.ANM, A, assignments, noises), "ANM(...)")
    if case.get("edit_after_build"):
        A[...] = 0            # the caller reuses its matrix for something else: the model was built from the graph it was given
        keepA = A.copy()
    # the constructor deep-copies callable objects: read the logs from the model's own copies
    mnoise = [_rec(f) for f in anm.noise_distributions]
    lab = []
    depth2 = any(pa[j] for i in range(p) for j in pa[i])
    cancelling = any(len(pa[i]) >= 2 and abs(A[pa[i], i].sum()) < 1e-12 for i in range(p))
    asym = any(len(pa[i]) >= 2 and case["assign"][i]["kind"] in ("lin", "prod", "inplace") for i in range(p))
    if p >= 17:
        lab.append("p_ge_17")
    if any(case["assign"][i]["kind"] == "falsy" for i in range(p)):
        lab.append("falsy_callable")
    if any(case["assign"][i]["kind"] == "inplace" for i in range(p)):
        lab.append("inplace_assignment")
    if any(len(pa[i]) >= 2 and max(pa[i]) >= 8 and min(pa[i]) < 8 for i in range(p)):
        lab.append("parents_straddle_8")
    worklist = list(case["calls"])
    ci = -1
    while worklist:
        call = worklist.pop(0)
        ci += 1
        for r in mnoise:
            r.log.clear()
        for b in blocks:
            del b[:]
        if "reuse" in call:
            # a caller keeps its shift / noise dictionaries and passes the very same objects again, now without the
            # do-interventions of the earlier call: what they say is what must happen
            passed = {"do": {}, "shift": call["reuse"]["shift"], "noise": call["reuse"]["noise"]}
            dicts = {"do": {}, "shift": call["expect"]["shift"], "noise": call["expect"]["noise"]}      # what the caller put in them
            for d in (dicts["shift"], dicts["noise"]):
                for f in d.values():
                    _rec(f).log.clear()
            lab.append("dicts_reused")
        else:
            passed = _call_dicts(call, p)
            dicts = {nm: dict(d) for nm, d in passed.items()}
        kwargs = {}
        if dicts["do"] or call.get("pass_empty"):
            kwargs["do_interventions"] = passed["do"]
        if dicts["shift"] or call.get("pass_empty"):
            kwargs["shift_interventions"] = passed["shift"]
        if dicts["noise"] or call.get("pass_empty"):
            kwargs["noise_interventions"] = passed["noise"]
        if call.get("random_state") is not None:
            kwargs["random_state"] = call["random_state"]
        Xs = must(lib(anm.sample, n, **kwargs), "ANM.sample(call %d)" % ci)
        Xs = np.asarray(Xs)
        ctx = "A=%s n=%d call#%d=%s assign=%s" % (A.tolist(), n, ci, {k: sorted(v) for k, v in dicts.items()}, case["assign"])
        if Xs.shape != (n, p):
            raise Violation("bad_shape", "sample has shape %r, expected (%d, %d); %s" % (Xs.shape, n, p, ctx))
        if not np.isfinite(Xs).all():
            raise Violation("non_finite", "sample contains non-finite values; %s" % ctx)
        for i in range(p):
            col = Xs[:, i]
            if i in dicts["do"]:
                draws = _rec(dicts["do"][i]).log
                if not any(_close(col, d) for d in draws):
                    raise Violation("do_not_honoured", "variable %d is do-intervened but its column is not a draw of the do distribution "
                                    "(column %s, draws %s); %s" % (i, col[:4].tolist(), [d[:4].tolist() for d in draws], ctx))
                continue
            block = Xs[:, pa[i]]
            tw = twins[i]
            f = 0.0 if tw is None else tw(block)
            f = np.asarray(f, dtype=float)
            if f.ndim == 2:
                f = f[:, 0]
            resid = col - f
            own = mnoise[i].log
            if i in dicts["shift"]:
                sh = _rec(dicts["shift"][i]).log
                ok = any(_close(resid, a + b) for a in own for b in sh)
                what = "assignment + original noise + shift draw"
            elif i in dicts["noise"]:
                nw = _rec(dicts["noise"][i]).log
                ok = any(_close(resid, a) for a in nw)
                what = "assignment + new noise"
            else:
                ok = any(_close(resid, a) for a in own)
                what = "assignment + original noise"
            if not ok:
                raise Violation("row_equation_violated", "variable %d (parents %s) is not %s: X[:4,%d]=%s, f(parents)[:4]=%s, residual[:4]=%s, "
                                "noise draws[:4]=%s; %s" % (i, pa[i], what, i, col[:4].tolist(), np.broadcast_to(f, (n,))[:4].tolist() if n else [],
                                                           resid[:4].tolist(), [d[:4].tolist() for d in own], ctx))
            # what the assignment was handed: the final parent columns, ascending, one per parent
            if case["assign"][i]["kind"] not in ("none", "null"):
                # an implementation may call an assignment more than once (e.g. to probe its output shape):
                # at least one of the blocks it was handed must be the final parent columns
                if blocks[i] and not any(bl.shape == (n, len(pa[i])) and _close(bl, block) for bl in blocks[i]):
                    shapes = sorted({bl.shape for bl in blocks[i]})
                    if all(bl.shape != (n, len(pa[i])) for bl in blocks[i]):
                        raise Violation("block_shape", "assignment of variable %d received blocks of shape %s, expected (%d, %d); %s"
                                        % (i, shapes, n, len(pa[i]), ctx))
                    raise Violation("block_not_parents", "assignment of variable %d did not receive the sampled values of its parents %s "
                                    "in increasing order; %s" % (i, pa[i], ctx))
        # callables must not be corrupted by the call (table noise hands out a view of its own buffer)
        for i in range(p):
            r = mnoise[i]
            if r.kind == "table" and not np.array_equal(r.table, r.table_pristine):
                raise Violation("noise_buffer_modified", "sampling wrote into the array returned by the noise callable of variable %d; %s" % (i, ctx))
        ov = [t for t in dicts["do"] if t in dicts["shift"] or t in dicts["noise"]]
        if ov:
            lab.append("do_overlap")
            if "reuse" not in call and len(worklist) < 6:
                worklist.insert(0, {"reuse": passed, "expect": dicts, "random_state": call.get("random_state")})
        for nm in ("do", "shift", "noise"):
            if dicts[nm]:
                lab.append("has_" + nm)
    if not (A == keepA).all():
        raise Violation("input_modified", "ANM modified the adjacency it was given")
    if p >= 2 and rows != G.transpose(rows) and not case.get("edit_after_build") and len(case["calls"]) % 2 == 0:
        # the caller turns every edge of its matrix round IN PLACE and builds a second model from the same array object:
        # that model is defined by what the array holds now (its parents are the first model's children)
        A[...] = A.T.copy()
        rows2 = G.rows_from_matrix(A)
        pa2 = [sorted(G.bits(x)) for x in G.transpose(rows2)]
        noises2 = [Recorder(5000 + i, "fresh") for i in range(p)]
        anm2 = must(lib(sempler.ANM, A, [None if not pa2[i] else (lambda Xb: np.tanh(np.asarray(Xb, dtype=float)).sum(axis=1)) for i in range(p)],
                        noises2), "ANM(same array object, edges reversed in place)")
        X2 = np.asarray(must(lib(anm2.sample, n), "sample of the second model"))
        logs = [_rec(f).log for f in anm2.noise_distributions]
        if X2.shape != (n, p):
            raise Violation("bad_shape", "second model: sample of shape %r" % (X2.shape,))
        for i in range(p):
            f = np.tanh(X2[:, pa2[i]]).sum(axis=1) if pa2[i] else 0.0
            if not any(_close(X2[:, i] - f, a) for a in logs[i]):
                raise Violation("row_equation_violated", "a second ANM built from the same array object after the caller reversed all edges "
                                "in place: variable %d (parents %s in the array as it is now) is not assignment + noise; A=%s"
                                % (i, pa2[i], A.tolist()))
        lab.append("second_model_same_array")
    if asym:
        lab.append("asym_multi_parent")
    if depth2:
        lab.append("depth2")
    if cancelling:
        lab.append("cancelling_column")
    if asym and ("do_overlap" in lab or cancelling or depth2):
        lab.append("nt")
    lab.append("n_%d" % n)
    return sorted(set(lab))


def _nontrivial(case, labels):
    return "nt" in labels


@st.composite
def anm_case(draw, p_max):
    src = draw(st.sampled_from(["weighted", "weighted", "binary", "embedded", "embedded", "wide"]))
    if src == "binary":
        case = {"A": draw(S.dag_pattern(1, p_max)), "dtype": draw(st.sampled_from(["int", "float"]))}
    elif src == "weighted":
        W, cls = draw(S.weighted_dag(1, p_max, classes=("unit", "smallint", "dyadic", "cancelling", "cancelling", "tiny")))
        case = {"W": W, "dtype": draw(st.sampled_from(["int", "float"]))}
    elif src == "wide":
        W, cls = draw(S.weighted_dag(4, 8, classes=("unit", "dyadic", "cancelling"), shapes=("chain", "collider", "dense", "random")))
        case = {"W": draw(S.embedded_wide(W)), "dtype": "float"}
    else:
        W, cls = draw(S.weighted_dag(3, 6, classes=("unit", "dyadic", "cancelling", "tiny"), shapes=("collider", "dense", "random")))
        case = {"W": draw(S.embedded(W, 9, 12)), "dtype": "float"}
    M = case.get("A", case.get("W"))
    p = len(M)
    pa = [[i for i in range(p) if M[i][j] != 0] for j in range(p)]
    assign = []
    for j in range(p):
        k = len(pa[j])
        if k == 0:
            assign.append({"kind": draw(st.sampled_from(["none", "null", "zero"])), "ret": draw(st.sampled_from(["vec", "col"]))})
            continue
        kind = draw(st.sampled_from(["lin", "lin", "lin", "prod", "const", "inplace", "falsy"]))
        if kind == "falsy":
            assign.append({"kind": "falsy", "value": draw(st.integers(-8, 8)) / 4.0})
            continue
        if kind == "const":
            assign.append({"kind": "const", "value": draw(st.integers(-8, 8)) / 4.0})
            continue
        base = draw(st.integers(1, 6)) / 4.0
        coef = [base * (c + 1) * (-1 if draw(st.booleans()) else 1) + 0.125 * c for c in range(k)]
        g = [draw(st.sampled_from(["id", "sin", "tanh", "abs", "sqtanh"])) for _ in range(k)]
        spec = {"kind": kind, "coef": coef, "g": g, "ret": draw(st.sampled_from(["vec", "vec", "col"]))}
        if kind == "prod":
            spec["pcoef"] = draw(st.integers(1, 8)) / 4.0
        assign.append(spec)
    case["assign"] = assign
    case["noise_kinds"] = [draw(st.sampled_from(["closure", "object", "table"])) for _ in range(p)]
    case["n"] = draw(st.sampled_from([7, 2, 50, 1, 0, 7, 3]))
    calls = []
    for _ in range(draw(st.sampled_from([1, 2, 2, 3]))):
        call = {"do": {}, "shift": {}, "noise": {}}
        k = draw(st.sampled_from([0, 1, 1, 2, 3]))
        active = [i for i in range(p) if pa[i] or any(i in pa[j] for j in range(p))] or list(range(p))
        tg = draw(st.lists(st.sampled_from(active) if p > 12 else st.integers(0, p - 1), min_size=min(k, len(active)), max_size=min(k, len(active)), unique=True))
        for t in tg:
            cls_t = draw(st.sampled_from(["do", "shift", "noise", "do+shift", "do+noise", "do+shift", "do+noise"]))
            for nm in cls_t.split("+"):
                call[nm][str(t)] = draw(st.sampled_from(["fresh", "closure"]))
        call["pass_empty"] = draw(st.booleans())
        call["random_state"] = draw(st.sampled_from([None, None, 0, 7]))
        calls.append(call)
    case["calls"] = calls
    case["sub"] = "anm"
    case["int_draws"] = draw(st.integers(0, 7)) == 0
    case["edit_after_build"] = draw(st.integers(0, 3)) == 0
    return case


def plan(tier, seed):
    jobs = []
    n = scaled(9600 if tier == "quick" else 120000)
    shards = 16 if tier == "quick" else 64
    for k in range(shards):
        jobs.append({"sub": "anm", "seed": seed, "shard": k, "n": max(1, n // shards), "p_max": 8, "cost": 10})
    return jobs


def run(job):
    acc = Acc(job["sub"])
    run_property(acc, anm_case(job["p_max"]), check, _nontrivial, job["n"], job_seed(job))
    acc.exhaustive = False
    return acc


LEVEL_TEXT = ("Exploration: thousands of generated additive-noise models with asymmetric non-linear assignments, recording noise and "
              "intervention callables and every documented combination of do / shift / noise interventions are sampled (several "
              "calls per model) and every row of the result is replayed against the structural equations with parent sets and "
              "order recomputed by the checker. The pinned suite never checks a single row against the equations.")
LEVEL_NOTE = ("Trusted: the replay oracle in /verif/props/c02.py (same Python functions re-evaluated on the final matrix) and numpy. "
              "Functions inside an ANM are treated as atomic (like copy.deepcopy does).")
TECHNIQUE = "Hypothesis model generation + record/replay oracle over the structural equations (row by row)"
DESIGN_REF = "DESIGN.md section 4, C02"
