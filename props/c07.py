"""C07 - Markov equivalence classes and consistent extensions are enumerated exactly."""
import numpy as np
from hypothesis import strategies as st

from harness import graphs as G
from harness import strategies as S
from harness.core import Acc, Violation, lib, must, must_raise
from harness.hyp import job_seed, run_property, scaled
from props.gcommon import DTYPE_NAMES, chain_variant, compare_sets, lib_debug, pdag_codes, result_set, signed_copy, to_np

PROP = "C07"
RULE = ("all_dags on every PDAG with acyclic directed part (p<=4 quick, p<=5 thorough: 765,664), mec (both check_chain "
        "values) on every DAG p<=4 (+ a seed-dependent slice of p=5 in quick, all 29,281 in thorough), "
        "is_consistent_extension on all (DAG, PDAG) pairs p<=3 and per PDAG on members, single-edge mutations of members "
        "and drawn DAGs; Hypothesis DAGs/PDAGs p=6..8, chain graphs p=1..12 (shortcut vs general path, unit and non-unit "
        "weights, relabelled) and signed weight matrices. Oracle: brute-force enumeration of all orientations kept iff "
        "acyclic with identical v-structures (class table for p<=5), compared as sets of 0/1 patterns incl. 'each once'. "
        "Non-trivial = result has >=2 members, or is empty, or input has both a v-structure and an undirected/reversible "
        "edge. Distinct = distinct input graph (+ variant). Also: graphs relabelled into 9..12 labels, uint8/bool/int32/float32 presentations, PDAGs with 13-14 undirected edges, the unit chain plus extra edges with cancelling weights, returned stacks overwritten after use.")
ASSUMPTIONS = [
    "oracle: harness/graphs.py brute force (all orientations, acyclic, same v-structures), class table self-checked against it on p<=4",
    "order and dtype of the returned stack are free; only the non-zero pattern of weighted inputs may matter",
    "PDAG inputs have an acyclic directed part (the property's domain)",
    "p>=6 is sampled",
]


def _nontrivial(case, labels):
    return any(l in labels for l in ("multi", "empty", "v_and_u"))


def _labels(P, n_members):
    lab = []
    if n_members >= 2:
        lab.append("multi")
    if n_members == 0:
        lab.append("empty")
    d, u = G.split(P)
    if G.vstructures(P) and any(u):
        lab.append("v_and_u")
    if any(u):
        lab.append("has_undirected")
    return lab


def _ext(P):
    return G.extensions_table(P) if len(P) <= 5 else G.extensions_bruteforce(P)


def _mec(D):
    return G.mec_table(D) if len(D) <= 5 else G.mec_bruteforce(D)


def check(case):
    import sempler.utils as utils
    sub = case["sub"]
    if sub in ("alldags_exh", "alldags_hyp", "alldags_big"):
        P = G.rows_from_lists(case["P"])
        p = len(P)
        A = to_np(P, case.get("dtype", "int"))
        keep = A.copy()
        want = _ext(P)
        res = must(lib(utils.all_dags, A), "all_dags")
        got, n = result_set(res, p, "all_dags")
        compare_sets(got, n, want, "all_dags", "P=%s" % case["P"])
        if not (A == keep).all():
            raise Violation("input_modified", "all_dags modified its argument")
        lab = _labels(P, len(want))
        if case.get("ice"):
            _check_ice(utils, P, A, want, case)
            lab.append("ice")
        return lab
    if sub in ("mec_exh", "mec_p5_slice", "mec_hyp", "mec_chain", "mec_weighted"):
        D = G.rows_from_lists(case["A"])
        p = len(D)
        want = _mec(D)
        lab = _labels(G.union_graph(want), len(want))
        variants = case.get("variants", ["int", "float", "nochain"])
        for var in variants:
            if var == "chain_plus_cancelling":
                # the canonical unit-weight chain 0->1->...->p-1 plus the case's extra forward edges with weights +w, -w, ...
                A = np.zeros((p, p))
                for i in range(p - 1):
                    A[i, i + 1] = 1.0
                for n, (i, j) in enumerate(case["extra"]):
                    A[i, j] = (0.5 if n % 2 == 0 else -0.5) * (1 + n // 2)
                if G.rows_from_matrix(A) != D:
                    raise ValueError("inconsistent chain_plus case")
                kw = {}
            elif var == "weighted":
                A = signed_copy(D, case.get("salt", 0))
                kw = {}
            elif var in ("near_one", "tiny_extras", "tiny_extras_w"):
                A = chain_variant(D, var[:11] if var.startswith("tiny") else var, case.get("salt", 0) * 2 + (var == "tiny_extras_w"))
                kw = {}
            elif var == "scaled":          # same pattern, weights 2 (chain pattern but not "the" chain matrix)
                A = 2.0 * to_np(D, float)
                kw = {}
            else:
                A = to_np(D, var if var in DTYPE_NAMES else "float")
                kw = {"check_chain": False} if var == "nochain" else {}
            res = must(lib(utils.mec, A, **kw), "mec[%s]" % var)
            got, n = result_set(res, p, "mec")
            compare_sets(got, n, want, "mec[%s]" % var, "A=%s" % case["A"])
            lab.append("var_" + var)
        return lab
    if sub == "ice_pairs":
        P = G.rows_from_lists(case["P"])
        Gd = G.rows_from_lists(case["G"])
        want = Gd in _ext(P)
        got = must(lib(utils.is_consistent_extension, to_np(Gd), to_np(P)), "is_consistent_extension")
        if bool(got) != want:
            raise Violation("ice_wrong", "is_consistent_extension(G=%s, P=%s) = %r, expected %r" % (case["G"], case["P"], got, want))
        return ["ice_true" if want else "ice_false"] + (["multi"] if len(_ext(P)) >= 2 else []) + (["empty"] if not _ext(P) else [])
    if sub == "ice_notdag":
        # G with a cycle or an undirected edge: ValueError documented
        Gd = np.array(case["G"])
        o = lib(utils.is_consistent_extension, Gd, np.array(case["P"]))
        must_raise(o, ValueError, "is_consistent_extension(non-DAG G)")
        return ["ice_notdag", "empty"]
    raise ValueError("unknown sub " + sub)


def _check_ice(utils, P, A, want, case):
    """Membership test on: every member, every single-edge mutation of the first members, and
    a few DAGs on other skeletons."""
    p = len(P)
    cands = set(list(sorted(want))[:6])
    for g in list(sorted(want))[:3]:
        for i in range(p):
            for j in range(p):
                if i != j:
                    h = list(g)
                    if g[i] >> j & 1:
                        h[i] &= ~(1 << j)                     # drop edge
                        cands.add(tuple(h))
                        h[j] |= 1 << i                        # reverse edge
                        cands.add(tuple(h))
                    elif not g[j] >> i & 1:
                        h[i] |= 1 << j                        # add edge
                        cands.add(tuple(h))
    # all orientations of the PDAG (members and non members on the right skeleton)
    for k, g in enumerate(G.orientations(P)):
        if k >= 16:
            break
        cands.add(g)
    cands = sorted(cands)
    if p > 20:                                  # big graphs: a deterministic sample of the mutations (members always included)
        keepers = [g for g in cands if g in want]
        rest = [g for g in cands if g not in want]
        cands = keepers + rest[:: max(1, len(rest) // 60)]
    for g in cands:
        if not G.is_acyclic_digraph(g):
            continue
        exp = g in want
        got = must(lib(utils.is_consistent_extension, to_np(g), A), "is_consistent_extension")
        if bool(got) != exp:
            raise Violation("ice_wrong", "is_consistent_extension(G=%s, P=%s) = %r, expected %r"
                            % (G.lists_from_rows(g), G.lists_from_rows(P), got, exp))
        if (sum(g) + len(cands)) % 5 == 0:          # the tracing flag must not change the verdict
            od = lib_debug(utils.is_consistent_extension, to_np(g), A)
            if od is not None and bool(must(od, "is_consistent_extension(debug=True)")) != exp:
                raise Violation("ice_wrong", "is_consistent_extension(G=%s, P=%s, debug=True) = %r, expected %r"
                                % (G.lists_from_rows(g), G.lists_from_rows(P), od.value, exp))


# ------------------------------------------------------------------------ jobs

def _run_alldags_exh(acc, job):
    p = job["p"]
    for k, (code, P) in enumerate(pdag_codes(p)):
        if k % job["nshards"] != job["shard"]:
            continue
        case = {"sub": "alldags_exh", "P": G.lists_from_rows(P), "dtype": DTYPE_NAMES[code % 6],
                "ice": (code % job["ice_every"] == 0)}
        try:
            lab = check(case)
            acc.record(case, lab, _nontrivial(case, lab), by_construction=True, sample=(code % 997 == 5))
        except Violation as v:
            acc.record(case, [], False)
            acc.violation(case, v)
    acc.exhaustive = True


def _run_mec_exh(acc, job):
    p = job["p"]
    dags = G.all_dags(p)
    step, off = job.get("step", 1), job.get("offset", 0)
    for k, D in enumerate(dags):
        if k % job["nshards"] != job["shard"] or (k // job["nshards"]) % step != off % step:
            continue
        case = {"sub": job["sub"], "A": G.lists_from_rows(D), "variants": [["int", "nochain"], ["float", "weighted"], ["uint8", "weighted"], ["bool", "int32"]][k % 4], "salt": k}
        try:
            lab = check(case)
            acc.record(case, lab, _nontrivial(case, lab), by_construction=True, sample=(k % 499 == 7))
        except Violation as v:
            acc.record(case, [], False)
            acc.violation(case, v)
    acc.exhaustive = (step == 1)


STRADDLE_MAPS = [(9, [1, 8, 0, 2]), (10, [7, 9, 8, 3]), (12, [11, 2, 5, 8])]


def _straddle(D, pbig, lab):
    """The DAG D (<= 4 nodes) with node k relabelled lab[k] among pbig nodes: parent sets that mix labels below and above 8."""
    out = [0] * pbig
    for i in range(len(D)):
        for j in G.bits(D[i]):
            out[lab[i]] |= 1 << lab[j]
    return tuple(out)


def _run_straddle(acc, job):
    """EVERY DAG on 3 and 4 nodes, relabelled into 9..12 labels on both sides of label 8 (three fixed maps): mec of the
    relabelled DAG and all_dags of its essential graph against brute force.  (Iteration order of Python sets of node labels is
    sorted only below 8; whatever depends on it shows on exactly these graphs.)"""
    n = 0
    for p in (3, 4):
        for k, D in enumerate(G.all_dags(p)):
            for mi, (pbig, lab) in enumerate(STRADDLE_MAPS):
                n += 1
                if n % job["nshards"] != job["shard"]:
                    continue
                B = _straddle(D, pbig, lab)
                case = {"sub": "mec_hyp", "A": G.lists_from_rows(B), "variants": [["int"], ["weighted"], ["float", "nochain"]][(k + mi) % 3], "salt": k}
                case2 = {"sub": "alldags_hyp", "P": G.lists_from_rows(G.union_graph(_mec(B))), "dtype": "int", "ice": False}
                for c in (case, case2):
                    try:
                        lab_ = check(c)
                        acc.record(c, lab_ + ["straddle_8"], True, by_construction=True, sample=(n % 997 == 3))
                    except Violation as v:
                        acc.record(c, [], False)
                        acc.violation(c, v)
    acc.exhaustive = True


def _run_ice_pairs(acc, job):
    for p in (1, 2, 3):
        dags = G.all_dags(p)
        for code, P in pdag_codes(p):
            for D in dags:
                case = {"sub": "ice_pairs", "P": G.lists_from_rows(P), "G": G.lists_from_rows(D)}
                try:
                    lab = check(case)
                    acc.record(case, lab, True, by_construction=True, sample=(code % 13 == 3 and D == dags[-1]))
                except Violation as v:
                    acc.record(case, [], False)
                    acc.violation(case, v)
        # non-DAG G: every graph with an undirected edge or a cycle must raise
        if p <= 3:
            for code in range(G.n_pdag_codes(p)):
                g = G.graph_from_code(p, code)
                d, u = G.split(g)
                if any(u) or not G.is_acyclic_digraph(g):
                    case = {"sub": "ice_notdag", "G": G.lists_from_rows(g), "P": G.lists_from_rows(G.skeleton(g))}
                    try:
                        lab = check(case)
                        acc.record(case, lab, True, by_construction=True, sample=False)
                    except Violation as v:
                        acc.record(case, [], False)
                        acc.violation(case, v)
    acc.exhaustive = True


def _run_chain(acc, job):
    for p in job["ps"]:
        chain = tuple((1 << (i + 1)) if i < p - 1 else 0 for i in range(p))
        variants = ["int", "float", "scaled", "weighted", "near_one"] + (["nochain"] if p <= job["p_nochain"] else [])
        case = {"sub": "mec_chain", "A": G.lists_from_rows(chain), "variants": variants, "salt": p}
        # reversed chain and a relabelled chain (general path, chain skeleton)
        rev = G.transpose(chain)
        cases = [case]
        if p <= job["p_nochain"]:
            cases.append({"sub": "mec_chain", "A": G.lists_from_rows(rev), "variants": ["int", "float"], "salt": p})
            if p >= 3:
                perm = list(range(p))
                perm[0], perm[-1] = perm[-1], perm[0]
                rel = [0] * p
                for i in range(p - 1):
                    rel[perm[i]] |= 1 << perm[i + 1]
                cases.append({"sub": "mec_chain", "A": G.lists_from_rows(tuple(rel)), "variants": ["int", "weighted"], "salt": p})
        if 4 <= p <= 8:
            # unit chain + two (four) extra forward edges with cancelling weights: the sum of all weights equals the chain's
            extras = [[0, 2], [1, 3]] + ([[0, 3], [2, p - 1]] if p >= 6 else [])
            rows = list(chain)
            for (i, j) in extras:
                rows[i] |= 1 << j
            cases.append({"sub": "mec_chain", "A": G.lists_from_rows(tuple(rows)), "variants": ["chain_plus_cancelling", "float", "tiny_extras", "tiny_extras_w"], "extra": extras, "salt": p})
        if 3 <= p <= 8:
            # the chain plus ONE far edge 0 -> p-1 (or 0 -> 2) whose weight is below every tolerance
            for far in ({2, p - 1} if p >= 3 else set()):
                rows = list(chain)
                rows[0] |= 1 << far
                cases.append({"sub": "mec_chain", "A": G.lists_from_rows(tuple(rows)), "variants": ["tiny_extras", "tiny_extras_w", "int"], "salt": p + far})
        for c in cases:
            try:
                lab = check(c)
                acc.record(c, lab + ["chain_p%d" % p], p >= 2, by_construction=True)
            except Violation as v:
                acc.record(c, [], False)
                acc.violation(c, v)
    acc.exhaustive = True


@st.composite
def _mec_case(draw):
    A = draw(S.dag_pattern(6, 8, shapes=("random", "sparse", "chain", "collider")))
    # keep the library's 2^u enumeration affordable: at most 10 edges
    edges = [(i, j) for i in range(len(A)) for j in range(len(A)) if A[i][j]]
    if len(edges) > 10:
        drop = draw(st.lists(st.sampled_from(edges), min_size=len(edges) - 10, max_size=len(edges) - 10, unique=True))
        for (i, j) in drop:
            A[i][j] = 0
    if draw(st.booleans()):
        small = draw(S.dag_pattern(3, 6, shapes=("random", "dense", "collider", "complete")))
        es = [(i, j) for i in range(len(small)) for j in range(len(small)) if small[i][j]]
        for (i, j) in es[10:]:
            small[i][j] = 0
        A = draw(S.embedded(small))
    if draw(st.integers(0, 4)) == 0:
        # three or four small DAGs side by side: the class is the product of the components' classes
        A = draw(S.disjoint_union(S.dag_pattern(2, 3, shapes=("random", "chain", "collider", "complete")), 3, 4))
    var = draw(st.sampled_from([["int"], ["float"], ["weighted"], ["nochain"], ["uint8"], ["bool"]]))
    return {"sub": "mec_hyp", "A": A, "variants": var, "salt": draw(st.integers(0, 7))}


@st.composite
def _alldags_case(draw):
    if draw(st.booleans()):
        P = draw(S.pdag(6, 8, max_undirected=9, weights=(4, 2, 2)))
    else:      # a small, denser PDAG relabelled into 9..12 nodes (label-dependent code paths)
        P = draw(S.embedded(draw(S.pdag(3, 6, max_undirected=8, weights=(2, 3, 3)))))
    if draw(st.integers(0, 4)) == 0:
        P = draw(S.disjoint_union(S.pdag(2, 3, weights=(1, 2, 4)), 3, 4))     # several components, most with undirected edges
    return {"sub": "alldags_hyp", "P": P, "dtype": draw(st.sampled_from(DTYPE_NAMES)), "ice": draw(st.integers(0, 9)) == 0}


def _big_cases(tier, seed):
    """PDAGs with 13-14 undirected edges (more than 2^12 orientations): trees, K6 minus an edge, a wheel with directed spokes."""
    out = []
    # undirected path / star-ish tree on 14 (15) nodes, relabelled by an affine map
    for p, a in ((14, 5), (15, 4)):
        lab = [(a * k + seed) % p for k in range(p)]
        P = [[0] * p for _ in range(p)]
        for k in range(1, p):
            i, j = lab[k], lab[(k - 1) // 2] if p == 14 else lab[k - 1 if k % 4 else max(0, k - 3)]     # binary tree / caterpillar
            P[i][j] = P[j][i] = 1
        out.append(P)
    # complete graph on 6 nodes minus one edge, undirected: 14 edges
    P = [[int(i != j) for j in range(6)] for i in range(6)]
    P[seed % 6][(seed + 1) % 6] = P[(seed + 1) % 6][seed % 6] = 0
    out.append(P)
    # 13 undirected edges plus a directed edge k -> i meeting the first undirected edge i - j (k, j non-adjacent)
    p = 9
    P = [[0] * p for _ in range(p)]
    und = [(0, 1), (1, 2), (2, 3), (3, 4), (4, 5), (5, 6), (6, 7), (0, 2), (1, 3), (2, 4), (3, 5), (4, 6), (5, 7)]
    for (i, j) in und:
        P[i][j] = P[j][i] = 1
    P[8][0] = 1
    out.append(P)
    # an undirected tree on 16 nodes: 15 undirected edges, 16 extensions out of 2^15 orientations
    pt = 16
    T16 = [[0] * pt for _ in range(pt)]
    for k in range(1, pt):
        a, b = (3 * k + seed) % pt, (3 * ((k - 1) // 3) + seed) % pt
        T16[a][b] = T16[b][a] = 1
    out.append(T16)
    # an undirected 13-cycle (every acyclic orientation creates a v-structure: NO extension), and the directed path
    # 0 -> 1 -> ... -> 11 closed by 11 - 12 - 0 (every orientation of the two edges closes a cycle or adds a collider)
    pc = 13
    C13 = [[0] * pc for _ in range(pc)]
    for k in range(pc):
        a, b = (5 * k + seed) % pc, (5 * (k + 1) + seed) % pc
        C13[a][b] = C13[b][a] = 1
    out.append(C13)
    Pd = [[0] * pc for _ in range(pc)]
    for k in range(11):
        Pd[k][k + 1] = 1
    Pd[11][12] = Pd[12][11] = Pd[12][0] = Pd[0][12] = 1
    out.append(Pd)
    # a DAG with astronomically many directed walks (every node has the 6 previous ones - in a scrambled order - as parents):
    # it is its own and only consistent extension
    pb = 200
    lab = [(7 * k + seed) % pb for k in range(pb)]
    Pb = [[0] * pb for _ in range(pb)]
    for k in range(pb):
        for d in range(1, 7):
            if k - d >= 0:
                Pb[lab[k - d]][lab[k]] = 1
    out.append(Pb)
    if tier == "thorough":
        Q = [row[:] for row in P]
        Q[8][7] = 1
        out.append(Q)
        P15 = [[0] * 15 for _ in range(15)]
        for k in range(14):
            P15[k][k + 1] = P15[k + 1][k] = 1
        out.append(P15)
    return out


def plan(tier, seed):
    jobs = [{"sub": "ice_pairs", "seed": seed, "cost": 3},
            ] + [{"sub": "mec_chain", "seed": seed, "ps": ps, "p_nochain": 9 if tier == "quick" else 11, "cost": 20}
                 for ps in ([1, 2, 3, 4, 5, 6, 7], [8], [9], [10], [11], [12])]
    for k in range(len(_big_cases(tier, seed))):
        jobs.append({"sub": "alldags_big", "seed": seed, "index": k, "tier": tier, "cost": 100})
    for p in (1, 2, 3):
        jobs.append({"sub": "alldags_exh", "p": p, "shard": 0, "nshards": 1, "ice_every": 1, "seed": seed, "cost": 1})
    ns = 16
    for k in range(ns):
        jobs.append({"sub": "alldags_exh", "p": 4, "shard": k, "nshards": ns, "ice_every": 7, "seed": seed, "cost": 5})
    for k in range(8):
        jobs.append({"sub": "straddle", "shard": k, "nshards": 8, "seed": seed, "cost": 8})
    for p in (1, 2, 3, 4):
        jobs.append({"sub": "mec_exh", "p": p, "shard": 0, "nshards": 1, "seed": seed, "cost": 4})
    if tier == "quick":
        for k in range(16):   # a seed-dependent 1/20 slice of the 29,281 DAGs on 5 nodes
            jobs.append({"sub": "mec_p5_slice", "p": 5, "shard": k, "nshards": 16, "step": 20, "offset": seed, "seed": seed, "cost": 6})
    else:
        for k in range(64):
            jobs.append({"sub": "mec_exh", "p": 5, "shard": k, "nshards": 64, "seed": seed, "cost": 30})
        for k in range(128):
            jobs.append({"sub": "alldags_exh", "p": 5, "shard": k, "nshards": 128, "ice_every": 101, "seed": seed, "cost": 60})
    n_m = scaled(480 if tier == "quick" else 4000)
    n_a = scaled(480 if tier == "quick" else 4000)
    shards = 16 if tier == "quick" else 32
    for k in range(shards):
        jobs.append({"sub": "mec_hyp", "seed": seed, "shard": k, "n": max(1, n_m // shards), "cost": 10})
        jobs.append({"sub": "alldags_hyp", "seed": seed, "shard": k, "salt": 1, "n": max(1, n_a // shards), "cost": 10})
    return jobs


def run(job):
    acc = Acc(job["sub"])
    sub = job["sub"]
    if sub == "alldags_big":
        P = _big_cases(job["tier"], job["seed"])[job["index"]]
        case = {"sub": "alldags_big", "P": P, "dtype": "int", "ice": len(P) >= 100}
        try:
            lab = check(case)
            acc.record(case, lab + ["undirected_ge_13" if len(P) < 100 else "many_walks"], True, by_construction=True)
        except Violation as v:
            acc.record(case, [], False)
            acc.violation(case, v)
        acc.exhaustive = False
    elif sub == "alldags_exh":
        _run_alldags_exh(acc, job)
    elif sub in ("mec_exh", "mec_p5_slice"):
        _run_mec_exh(acc, job)
    elif sub == "ice_pairs":
        _run_ice_pairs(acc, job)
    elif sub == "straddle":
        _run_straddle(acc, job)
    elif sub == "mec_chain":
        _run_chain(acc, job)
    elif sub == "mec_hyp":
        run_property(acc, _mec_case(), check, _nontrivial, job["n"], job_seed(job))
        acc.exhaustive = False
    elif sub == "alldags_hyp":
        run_property(acc, _alldags_case(), check, _nontrivial, job["n"], job_seed(job))
        acc.exhaustive = False
    return acc


def selfcheck():
    G.selfcheck()


LEVEL_TEXT = ("Exploration, exhaustive on the small domains: all_dags / mec / is_consistent_extension are compared as sets with "
              "a brute-force enumeration (all orientations, acyclic, same v-structures) on every PDAG with acyclic directed part "
              "and every DAG up to 4 nodes in the quick tier and up to 5 nodes (765,664 PDAGs, 29,281 DAGs) in the thorough "
              "tier, plus generated graphs on 6-8 nodes, chains to 12 nodes and signed weight matrices. Completeness (no "
              "member missing, none twice) is exactly what the suite never checks.")
LEVEL_NOTE = ("Trusted: brute-force enumerator in /verif/harness/graphs.py (the class table is self-checked against it), numpy, "
              "Hypothesis. Sizes above 5 nodes are sampled; no proof for arbitrary p.")
TECHNIQUE = "exhaustive enumeration of small PDAGs/DAGs + Hypothesis generation vs. brute-force equivalence-class oracle (set comparison)"
DESIGN_REF = "DESIGN.md section 4, C07"
