"""C17 - split_data partitions every environment's observations."""
import itertools
from fractions import Fraction

import numpy as np
from hypothesis import strategies as st

from harness.core import Acc, Violation, fr, fstr, lib, must, must_raise
from harness.hyp import job_seed, run_property, scaled

PROP = "C17"
RULE = ("Exhaustive grid: one environment of n in 0..30 rows x every composition of 10 into 2..4 positive parts as ratios k/10 "
        "(+ a second, differently sized environment); Hypothesis: 1..4 environments with sizes 0..40 (unequal, odd, tiny), rows "
        "carrying globally unique ids, ratio vectors k_i/m for integer compositions (m <= 20, zeros allowed, 1..6 folds; their "
        "float sum may be 1 +- ulp), presented as list / tuple / ndarray, vectors off by 2e-6 .. 1e-2 in either direction for the "
        "exception, seeds incl. 0 and the default. Oracle: per environment the multiset of rows over all folds equals the input "
        "rows (nothing lost, duplicated or moved across environments); |size_i - n*r_i| <= 1/2 for every non-last fold whose "
        "request still fits, the last fold holding the remainder; same seed => identical output, 8 seeds => at least two "
        "different outputs (n >= 6); inputs byte-identical afterwards; ValueError iff |sum r - 1| > 1e-6, accepted whenever the "
        "exact rational sum is 1. Non-trivial = sum_i round(n*r_i) != n, or float(sum r) != 1.0 while the rational sum is 1, or "
        "an off-by-small ratio vector. Also: 7..100 folds incl. k equal folds, empty environment lists, int64 data above 2^53 and float32 data, eight seeds (0, 42, 2^32-1, ...) pairwise distinct on >= 17 rows.")
ASSUMPTIONS = [
    "half-way cases accept either rounding direction; |sum r - 1| in (1e-9, 1e-6] is not generated (the statement leaves it open)",
    "one shuffle shared by all environments is allowed (not demanded either way)",
]


def _data(sizes, width, kind="float"):
    """Rows carry globally unique ids in column 0.  kind 'int_big': int64 data whose values lie above 2^53 (distinct as
    integers, indistinguishable after a detour through float64); 'int': small int64; 'float32'."""
    out = []
    for e, n in enumerate(sizes):
        if kind in ("int_big", "int"):
            base = (2 ** 60 if kind == "int_big" else 0) + e * 1000
            ids = base + np.arange(n, dtype=np.int64)
            cols = [ids] + [ids - (c + 1) * 7 for c in range(width - 1)]
            out.append(np.stack(cols, axis=1).astype(np.int64))
        else:
            ids = (e * 1000 + np.arange(n)).astype(float)
            cols = [ids] + [ids * (c + 2) + 0.5 for c in range(width - 1)]
            out.append(np.stack(cols, axis=1).astype(np.float32 if kind == "float32" else float))
    from props.gcommon import relayout            # C order, Fortran order or a strided view: the caller's choice
    return [relayout(x, key=e + len(x)) for e, x in enumerate(out)]


def _ratios(case):
    if "ratio_floats" in case:
        r = [float(x) for x in case["ratio_floats"]]
    else:
        r = [float(fr(k)) for k in case["ratios"]]
    how = case.get("rpres", "list")
    return tuple(r) if how == "tuple" else np.array(r) if how == "array" else r


def _acceptable_sizes(n, r):
    """round(n x r) for the double r the library is given, under every reading of "round": the product in floating point
    rounded half-to-even (Python's round, numpy) or half-up, and the exact product n * r rounded to nearest (both neighbours
    when that is an exact tie).  For most (n, r) these agree on one number, and then that number is demanded."""
    import math
    fp = n * r
    ok = {int(round(fp)), int(math.floor(fp + 0.5))}
    ex = n * Fraction(r)
    lo = ex.numerator // ex.denominator
    frac = ex - lo
    if frac == Fraction(1, 2):
        ok |= {lo, lo + 1}
    else:
        ok.add(lo + 1 if frac > Fraction(1, 2) else lo)
    return ok


def check(case):
    import sempler.utils as utils
    sizes = case["sizes"]
    data = _data(sizes, case.get("width", 2), case.get("data_kind", "float"))
    keep = [d.copy() for d in data]
    ratios = _ratios(case)
    rl = [float(x) for x in ratios]
    kw = {} if case.get("seed") is None else {"random_state": case["seed"]}
    ctx = "split_data(sizes=%s, ratios=%r, seed=%r)" % (sizes, rl, case.get("seed"))
    o = lib(utils.split_data, data, ratios, **kw)
    lab = []
    if case.get("expect") == "error":
        must_raise(o, ValueError, ctx + " [ratios do not sum to 1]")
        return ["ratio_error", "nt"] + (["no_environments"] if not sizes else [])
    folds = must(o, ctx)
    exact = [fr(k) for k in case["ratios"]]
    nf = len(exact)
    if sum(rl) != 1.0:
        lab += ["float_sum_ne_1", "nt"]
    if not isinstance(folds, (list, tuple)) or len(folds) != nf:
        raise Violation("wrong_fold_count", "%s returned %d folds, expected %d" % (ctx, len(folds) if hasattr(folds, "__len__") else -1, nf))
    for i, f in enumerate(folds):
        if len(f) != len(sizes):
            raise Violation("wrong_env_count", "%s: fold %d has %d environments, expected %d" % (ctx, i, len(f), len(sizes)))
    for e, n in enumerate(sizes):
        parts = [np.asarray(folds[i][e]) for i in range(nf)]
        for i, part in enumerate(parts):
            if part.ndim != 2 or part.shape[1] != data[e].shape[1]:
                raise Violation("bad_shape", "%s: fold %d / environment %d has shape %r" % (ctx, i, e, part.shape))
        got = np.concatenate(parts, axis=0) if parts else np.zeros((0, data[e].shape[1]))
        want_ids = sorted(keep[e][:, 0].tolist())
        got_ids = sorted(got[:, 0].tolist())
        if got_ids != want_ids:
            lost = sorted(set(want_ids) - set(got_ids))
            dup = sorted(set(x for x in got_ids if got_ids.count(x) > 1))[:5]
            foreign = sorted(set(got_ids) - set(want_ids))[:5]
            raise Violation("rows_lost" if lost and not dup and not foreign else "rows_not_partitioned",
                            "%s: environment %d of %d rows -> folds of sizes %s; lost ids %s, duplicated %s, foreign %s"
                            % (ctx, e, n, [len(p_) for p_ in parts], lost[:5], dup, foreign))
        # rows are intact (not just the id column)
        order = np.argsort(got[:, 0], kind="stable")
        if not np.array_equal(got[order], keep[e][np.argsort(keep[e][:, 0], kind="stable")]):
            raise Violation("rows_corrupted", "%s: environment %d rows changed content" % (ctx, e))
        start = 0
        for i in range(nf - 1):
            want = n * exact[i]
            s = len(parts[i])
            if start + float(want) + 0.5 <= n:           # the request still fits entirely
                ok = _acceptable_sizes(n, rl[i])
                if s not in ok:
                    raise Violation("fold_size", "%s: environment %d fold %d has %d rows, round(%d * %r) is %s"
                                    % (ctx, e, i, s, n, rl[i], " or ".join(str(k) for k in sorted(ok))))
                if len(ok) == 1 and abs(float(want) % 1 - 0.5) < 1e-9:
                    lab.append("tie_settled_by_the_double")
            start += s
        if n and sum(int(n * r + Fraction(1, 2)) for r in exact) != n:
            if "rounding_mismatch" not in lab:
                lab += ["rounding_mismatch", "nt"]
    # determinism and dependence on the seed
    again = must(lib(utils.split_data, data, ratios, **kw), ctx + " [repeat]")
    for i in range(nf):
        for e in range(len(sizes)):
            if not np.array_equal(np.asarray(again[i][e]), np.asarray(folds[i][e])):
                raise Violation("not_deterministic", "%s: two identical calls differ" % ctx)
    big = [e for e, n in enumerate(sizes) if n >= 6]
    if big and case.get("vary_seed", True):
        e = big[0]
        outs = set()
        for s in range(8):
            f = must(lib(utils.split_data, data, ratios, random_state=1000 + s + (case.get("seed") or 0)), ctx + " [other seed]")
            outs.add(np.concatenate([np.asarray(f[i][e]) for i in range(nf)], axis=0)[:, 0].tobytes())
        if len(outs) < 2:
            raise Violation("shuffle_ignores_seed", "%s: 8 different seeds give the same arrangement of environment %d" % (ctx, e))
        lab.append("seed_varied")
    huge = [e for e, n in enumerate(sizes) if n >= 17]
    if huge and case.get("vary_seed", True):
        # the arrangement "changes with random_state": any two of these seeds coincide with probability <= 1/17! each
        e = huge[0]
        seen = {}
        for s in (0, 1, 2, 7, 42, 43, 2 ** 31, 2 ** 32 - 1, 2 ** 32, 2 ** 32 + 7, 2 ** 40 + 42, 2 ** 64 + 1):
            f = must(lib(utils.split_data, data, ratios, random_state=s), ctx + " [seed %d]" % s)
            key = np.concatenate([np.asarray(f[i][e]) for i in range(nf)], axis=0)[:, 0].tobytes()
            if key in seen:
                raise Violation("seeds_coincide", "%s: random_state=%d and random_state=%d give the same arrangement of the %d rows of environment %d"
                                % (ctx, seen[key], s, sizes[e], e))
            seen[key] = s
        lab.append("seeds_pairwise_distinct")
    for d0, d1 in zip(keep, data):
        if not np.array_equal(d0, d1):
            raise Violation("input_modified", "%s modified the caller's arrays" % ctx)
    lab.append("folds_%d" % nf)
    return lab


def _nontrivial(case, labels):
    return "nt" in labels


def _compositions(total, parts):
    for cuts in itertools.combinations(range(1, total), parts - 1):
        prev = 0
        out = []
        for c in cuts + (total,):
            out.append(c - prev)
            prev = c
        yield out


@st.composite
def split_case(draw):
    ne = draw(st.sampled_from([0, 1, 1, 2, 2, 3, 4]))
    sizes = [draw(st.sampled_from([0, 1, 2, 3, 5, 7, 9, 10, 11, 13, 17, 25, 33, 40]) | st.integers(0, 40)) for _ in range(ne)]
    many = draw(st.integers(0, 5)) == 0
    nf = draw(st.integers(7, 100)) if many else draw(st.integers(1, 6))
    m = draw(st.sampled_from([nf, nf, 2 * nf + 1, 88, 95, 63, 97, 120])) if many else draw(st.sampled_from([2, 3, 4, 5, 6, 7, 8, 9, 10, 10, 12, 16, 20]))
    m = max(m, 2)
    # composition of m into nf non-negative parts
    cuts = sorted(draw(st.lists(st.integers(0, m), min_size=nf - 1, max_size=nf - 1)))
    ks = [b - a for a, b in zip([0] + cuts, cuts + [m])]
    if many and draw(st.booleans()):
        ks, m = [1] * nf, nf                       # k equal folds of 1/k: the float sum drifts away from 1.0 by several ulp
    case = {"sub": "hyp", "sizes": sizes, "ratios": [fstr(Fraction(k, m)) for k in ks], "width": draw(st.sampled_from([1, 2, 3])),
            "rpres": draw(st.sampled_from(["list", "list", "tuple", "array"])),
            "seed": draw(st.sampled_from([0, None, 42, 1]) | st.integers(0, 2 ** 32 - 1)),
            "data_kind": draw(st.sampled_from(["float", "float", "int", "int_big", "float32"]))}
    if draw(st.integers(0, 5)) == 0:
        # off by a small but definite amount: must raise
        mag = draw(st.sampled_from([2e-6, 5e-6, 1e-5, 3e-5, 1e-4, 1e-3, 1e-2]))
        sign = draw(st.sampled_from([1, -1]))
        pos = draw(st.integers(0, nf - 1))
        fl = [float(Fraction(k, m)) for k in ks]
        fl[pos] = fl[pos] + sign * mag
        if fl[pos] < 0:
            fl[pos] += 2 * mag
        case["ratio_floats"] = fl
        case["expect"] = "error"
    return case


def plan(tier, seed):
    jobs = []
    for k in range(16):
        jobs.append({"sub": "grid", "seed": seed, "shard": k, "nshards": 16, "cost": 5})
    for k in range(4):
        jobs.append({"sub": "ties", "seed": seed, "shard": k, "nshards": 4, "tier": tier, "cost": 6})
    for k, (n, ratios) in enumerate([(60000, [Fraction(1, 2), Fraction(3, 10), Fraction(1, 5)]), (100000, [Fraction(1, 4)] * 4),
                                     (50001, [Fraction(7, 10), Fraction(1, 5), Fraction(1, 10)])] + ([(250000, [Fraction(1, 5)] * 5)] if tier == "thorough" else [])):
        jobs.append({"sub": "big_n", "seed": seed, "n": n, "ratios": [fstr(r) for r in ratios], "index": k, "cost": 12})
    n = scaled(16000 if tier == "quick" else 240000)
    shards = 16 if tier == "quick" else 64
    for k in range(shards):
        jobs.append({"sub": "hyp", "seed": seed, "shard": k, "n": max(1, n // shards), "cost": 8})
    return jobs


def run(job):
    acc = Acc(job["sub"])
    if job["sub"] == "grid":
        idx = 0
        for n in range(0, 31):
            for parts in (2, 3, 4):
                for comp in _compositions(10, parts):
                    idx += 1
                    if idx % job["nshards"] != job["shard"]:
                        continue
                    case = {"sub": "grid", "sizes": [n, (n * 7 + 3) % 23], "ratios": [fstr(Fraction(k, 10)) for k in comp],
                            "seed": [0, job["seed"], None][idx % 3], "width": 2, "vary_seed": idx % 7 == 0}
                    try:
                        lab = check(case)
                        acc.record(case, lab, _nontrivial(case, lab), by_construction=True, sample=(idx % 501 == 0))
                    except Violation as v:
                        acc.record(case, [], False)
                        acc.violation(case, v)
        acc.exhaustive = True
    elif job["sub"] == "big_n":
        # tens of thousands of observations in one environment, three or more folds (a library may switch to index sampling)
        case = {"sub": "big_n", "sizes": [job["n"], 7], "ratios": job["ratios"], "seed": job["seed"] + job["index"], "width": 1, "vary_seed": False}
        try:
            lab = check(case)
            acc.record(case, lab + ["big_n"], True, by_construction=True)
        except Violation as v:
            acc.record(case, [], False)
            acc.violation(case, v)
        acc.exhaustive = False
    elif job["sub"] == "ties":
        # n x ratio exactly half-way for a two-decimal ratio: (n, a) with n * a / 100 = k + 1/2.  Whether that is a real tie
        # depends on the double that stands for a/100 - e.g. 10 x 0.55 (the double is slightly above 11/20) is 6 under
        # every reading, and a library that moves the ratios by an ulp (renormalising them) turns it into 5.
        idx = 0
        for n in ([10, 30, 50, 90] if job.get("tier") != "thorough" else [10, 30, 50, 70, 90, 110, 150, 250]):
            for a in range(1, 99):
                if (n * a) % 100 != 50:
                    continue
                for b in range(1, 100 - a):
                    c = 100 - a - b
                    for perm in ((a, b, c), (b, a, c)):
                        idx += 1
                        if idx % job["nshards"] != job["shard"] or (job.get("tier") != "thorough" and idx % 3):
                            continue
                        case = {"sub": "ties", "sizes": [n], "ratios": [fstr(Fraction(k, 100)) for k in perm],
                                "seed": [0, job["seed"], 7][idx % 3], "width": 1}
                        try:
                            lab = check(case)
                            acc.record(case, lab, "tie_settled_by_the_double" in lab, by_construction=True, sample=(idx % 701 == 0))
                        except Violation as v:
                            acc.record(case, [], False)
                            acc.violation(case, v)
        acc.exhaustive = True
    else:
        run_property(acc, split_case(), check, _nontrivial, job["n"], job_seed(job))
        acc.exhaustive = False
    return acc


LEVEL_TEXT = ("Exploration: exhaustive grid of sizes 0..30 x all compositions of 10 into 2-4 ratio parts, and Hypothesis-generated "
              "multi-environment data sets with unequal / odd / tiny sizes and rational ratio vectors (float sum 1 +- ulp), judged by "
              "a partition oracle on globally unique row ids (nothing lost, duplicated or moved), fold-size bounds, determinism and "
              "seed dependence, input preservation and the exception contract on slightly-off ratio vectors.")
LEVEL_NOTE = "Trusted: the multiset comparison of row ids in /verif/props/c17.py. Sizes above 40 rows and more than 6 folds are not generated."
TECHNIQUE = "exhaustive (size, ratio-composition) grid + Hypothesis vs. partition / multiset oracle"
DESIGN_REF = "DESIGN.md section 4, C17"
