"""C19 - semi-synthetic samples factorise according to the given graph.

The R forest is replaced by the deterministic stand-in in /verif/harness/fake_rpy2 (put on
sys.path by the runner); sempler.semi and the bundled drf/code.py run unmodified."""
import numpy as np
from hypothesis import strategies as st

from harness import graphs as G
from harness import strategies as S
from harness.core import Acc, Violation, fr, lib, must, must_raise
from harness.hyp import job_seed, run_property, scaled

PROP = "C19"
RULE = ("Hypothesis: DAGs p<=6 (binary and signed weights) and small DAGs relabelled into 9..12 variables, 1..3 environments of "
        "8..40 rows whose values are globally unique (value encodes environment, variable, row), n in {None, int, per-environment "
        "list}, seeds incl. 0, several sample calls per network with np.random perturbations and in-place modification of the "
        "caller's data in between; invalid graph / data / n arguments of every documented kind. Oracle: one (n_k, p) array per "
        "environment; every value of column i in environment k is an original value of that column and environment; forests were "
        "fitted for exactly the non-source nodes with X = data[k][:, sorted(parents)], Y = data[k][:, i]; the last prediction "
        "query of each forest equals the FINAL synthetic parent columns in ascending order and every produced value lies in the "
        "support the stand-in assigns to that query (Markov factorisation); bootstrap index vectors of two source nodes of one "
        "environment differ (n >= 20); same random_state => identical output whatever happened in between; documented TypeError / "
        "ValueError for each invalid argument. Non-trivial = >= 2 sources, a node with >= 2 parents, seeded call. Also: verbose construction, 2^15+1 training rows with 1030 synthetic rows, independence of the neighbour rank picked by different forests (>= 30 rows).")
ASSUMPTIONS = [
    "the R package drf is replaced by a deterministic 3-nearest-neighbour stand-in behind the rpy2 interface; the statistical quality of a real forest is out of scope by the property's own wording",
    "different seeds / unseeded calls giving different samples is recorded, not demanded",
    "bool and numpy-integer n are not generated (undocumented)",
]


def _fake():
    from rpy2.robjects import packages as fk
    if getattr(fk, "LOG", None) is None:
        raise RuntimeError("the stand-in rpy2 is not the one from /verif/harness/fake_rpy2")
    return fk


def _graph(case):
    from props.gcommon import relayout
    if "W" in case:
        return relayout(np.array([[float(fr(x)) for x in row] for row in case["W"]], dtype=float))
    return relayout(np.array(case["A"], dtype=float if case.get("dtype") == "float" else int))


def _data(case, p):
    # value = environment * 10^7 + variable * 10^5 + row + 1/4 : globally unique (rows < 10^5, variables < 100)
    return [(k * 1e7 + np.arange(p)[None, :] * 1e5 + np.arange(N)[:, None] + 0.25) for k, N in enumerate(case["Ns"])]


def check(case):
    if case["sub"] == "errors":
        return _check_errors(case)
    from sempler.semi import DRFNet
    fk = _fake()
    graph = _graph(case)
    p = len(graph)
    rows = G.rows_from_matrix(graph)
    pa = [sorted(G.bits(x)) for x in G.transpose(rows)]
    sources = [i for i in range(p) if not pa[i]]
    data = _data(case, p)
    pristine = [d.copy() for d in data]
    e = len(data)
    if (p + sum(case["Ns"]) + len(case["calls"])) % 2 == 0:
        # the caller built another network from the very same array objects earlier, when they held other values, and has
        # since refilled them: the judged network is defined by what the arrays hold when it is constructed
        for d in data:
            d[...] = d[::-1] * 0.5 + 3.0
        lib(DRFNet, graph, data)
        for d, pr in zip(data, pristine):
            d[...] = pr
    fk.reset_log()
    keepg = graph.copy()
    if case.get("verbose"):
        import contextlib
        import io
        with contextlib.redirect_stdout(io.StringIO()):
            o_net = lib(DRFNet, graph, data, verbose=True)
        net = must(o_net, "DRFNet(graph, data, verbose=True)")
    else:
        net = must(lib(DRFNet, graph, data), "DRFNet(graph, data)")
    ctx = "graph=%s Ns=%s" % (graph.tolist(), case["Ns"])
    # ---- fits: exactly one per (non-source node, environment), on sorted parents
    fits = {}
    for entry in fk.LOG:
        if entry[0] != "fit":
            continue
        _, fid, Xt, Yt, params = entry
        owner = None
        for k in range(e):
            for i in range(p):
                if Yt.shape == (len(pristine[k]), 1) and np.array_equal(Yt[:, 0], pristine[k][:, i]):
                    owner = (i, k)
        if owner is None:
            raise Violation("fit_unknown_response", "a forest was fitted to a response that is no column of the data; %s" % ctx)
        i, k = owner
        if owner in fits:
            raise Violation("fit_duplicate", "two forests fitted for node %d environment %d; %s" % (i, k, ctx))
        if not pa[i]:
            raise Violation("fit_for_source", "a forest was fitted for source node %d; %s" % (i, ctx))
        want = pristine[k][:, pa[i]]
        if Xt.shape != want.shape or not np.array_equal(Xt, want):
            raise Violation("fit_wrong_parents", "forest of node %d env %d fitted on predictors that are not its parents %s in increasing order; %s"
                            % (i, k, pa[i], ctx))
        fits[owner] = (fid, Xt, Yt[:, 0])
    missing = [(i, k) for i in range(p) if pa[i] for k in range(e) if (i, k) not in fits]
    if missing:
        raise Violation("fit_missing", "no forest fitted for (node, env) %s; %s" % (missing[:4], ctx))
    if not np.array_equal(graph, keepg):
        raise Violation("input_modified", "DRFNet modified the graph; %s" % ctx)
    lab = ["arrays_used_before"] if (p + sum(case["Ns"]) + len(case["calls"])) % 2 == 0 else []
    if len(sources) >= 2:
        lab.append("two_sources")
    if any(len(x) >= 2 for x in pa):
        lab.append("multi_parent")
    if any(len(x) >= 2 and max(x) >= 8 > min(x) for x in pa):
        lab.append("parents_straddle_8")
    by_fid = {v[0]: key for key, v in fits.items()}
    outputs = {}
    for ci, call in enumerate(case["calls"]):
        if call.get("mutate_data"):
            for d in data:
                d += 5e8               # the caller changes its arrays after fitting: the network must hold copies
            lab.append("caller_mutated_data")
        if call.get("perturb") is not None:
            np.random.seed(call["perturb"])
            np.random.random(3)
        n = call["n"]
        exp_n = case["Ns"] if n is None else ([n] * e if isinstance(n, int) else list(n))
        fk.reset_log()
        kw = {} if call.get("seed") is None else {"random_state": call["seed"]}
        if n is not None:
            kw["n"] = n
        res = must(lib(net.sample, **kw), "DRFNet.sample(%r)" % (kw,))
        cctx = "%s call#%d %r" % (ctx, ci, kw)
        if not isinstance(res, (list, tuple)) or len(res) != e:
            raise Violation("wrong_env_count", "sample returned %r environments, expected %d; %s" % (len(res) if hasattr(res, "__len__") else res, e, cctx))
        last_query = {}
        for entry in fk.LOG:
            if entry[0] == "predict":
                last_query[by_fid.get(entry[1])] = entry[2]
        for k in range(e):
            Xk = np.asarray(res[k])
            if Xk.shape != (exp_n[k], p):
                raise Violation("bad_shape", "environment %d has shape %r, expected (%d, %d); %s" % (k, Xk.shape, exp_n[k], p, cctx))
            idx = {}
            ranks = {}
            for i in range(p):
                col = Xk[:, i]
                pool = pristine[k][:, i]
                lookup = {float(v): r for r, v in enumerate(pool)}
                if any(float(v) not in lookup for v in col):
                    bad = [float(v) for v in col if float(v) not in lookup][:3]
                    raise Violation("value_not_observed", "variable %d environment %d: values %s were never observed for it in that environment; %s"
                                    % (i, k, bad, cctx))
                idx[i] = np.array([lookup[float(v)] for v in col], dtype=int)
            for i in range(p):
                if not pa[i]:
                    continue
                fid, Xt, Yt = fits[(i, k)]
                Q = last_query.get((i, k))
                want_q = Xk[:, pa[i]]
                if Q is None:
                    raise Violation("no_prediction", "node %d env %d was not generated by its forest; %s" % (i, k, cctx))
                if Q.shape != want_q.shape or not np.array_equal(Q, want_q):
                    raise Violation("query_not_synthetic_parents", "forest of node %d env %d was queried with something else than the final "
                                    "synthetic values of its parents %s (in increasing order); %s" % (i, k, pa[i], cctx))
                ranks[i] = []
                for r in range(len(Xk)):
                    w = fk.knn_weights(Xt, want_q[r])
                    support = set(Yt[w > 0].tolist())
                    # which of the (up to 3) weighted training rows was picked: 0 = heaviest
                    order = np.argsort(-w, kind="stable")
                    ranks[i].append(int(np.where(Yt[order] == float(Xk[r, i]))[0][0]) if float(Xk[r, i]) in support else -1)
                    if float(Xk[r, i]) not in support:
                        raise Violation("not_markov", "node %d env %d row %d: value %r is not in the support %s that its forest gives for the "
                                        "synthetic parents %s; %s" % (i, k, r, float(Xk[r, i]), sorted(support), want_q[r].tolist(), cctx))
            # every forest draws on its own: two non-source nodes must not pick "the same-ranked neighbour" in every row
            # (probability of a coincidence under independent draws with weights .5/.3/.2: 0.38^n <= 2.5e-13 for n >= 30)
            if exp_n[k] >= 30 and len(pristine[k]) >= 3:
                nodes = sorted(ranks)
                for a in range(len(nodes)):
                    for b in range(a + 1, len(nodes)):
                        if ranks[nodes[a]] == ranks[nodes[b]]:
                            raise Violation("forest_draws_dependent", "nodes %d and %d of environment %d picked the same-ranked training row in all %d "
                                            "synthetic rows: their forests share one random stream; %s" % (nodes[a], nodes[b], k, exp_n[k], cctx))
                if len(nodes) >= 2:
                    lab.append("forest_independence_checked")
            # sources are resampled independently of one another
            if exp_n[k] >= 20 and call.get("seed") is not None:
                for a in range(len(sources)):
                    for b in range(a + 1, len(sources)):
                        if np.array_equal(idx[sources[a]], idx[sources[b]]):
                            raise Violation("sources_dependent", "sources %d and %d of environment %d were resampled with identical row indices; %s"
                                            % (sources[a], sources[b], k, cctx))
        if call.get("seed") is not None:
            key = (call["seed"], repr(n))
            flat = [np.asarray(x).copy() for x in res]
            if key in outputs:
                if any(not np.array_equal(a, b) for a, b in zip(outputs[key], flat)):
                    which = [k for k, (a, b) in enumerate(zip(outputs[key], flat)) if not np.array_equal(a, b)]
                    cols = sorted(set(int(c) for k in which for c in np.where((outputs[key][k] != flat[k]).any(axis=0))[0]))
                    raise Violation("not_reproducible", "two calls with random_state=%r differ (environments %s, variables %s; sources are %s); %s"
                                    % (call["seed"], which, cols, sources, cctx))
                lab.append("repeat_seeded")
            outputs[key] = flat
            lab.append("seeded")
            if call["seed"] == 0:
                lab.append("seed0")
    if "two_sources" in lab and "multi_parent" in lab and "seeded" in lab:
        lab.append("nt")
    return sorted(set(lab))


def _check_errors(case):
    from sempler.semi import DRFNet
    kind = case["kind"]
    p = 3
    graph = np.array([[0, 1, 1], [0, 0, 1], [0, 0, 0]])
    data = [np.arange(30, dtype=float).reshape(10, 3) + 100 * k for k in range(2)]
    exc = {"T": TypeError, "V": ValueError}[case["exc"]]
    if kind.startswith("graph") or kind.startswith("data"):
        g, d = graph, data
        if kind == "graph_list":
            g = graph.tolist()
        elif kind == "graph_1d":
            g = np.zeros(3)
        elif kind == "graph_3d":
            g = np.zeros((3, 3, 1))
        elif kind == "graph_cyclic":
            g = np.array([[0, 1, 0], [0, 0, 1], [1, 0, 0]])
        elif kind == "graph_cyclic_signed":
            g = np.array([[0, 1.0, 0], [0, 0, 1.0], [-2.0, 0, 0]])
        elif kind == "graph_selfloop":
            g = np.array([[0, 1, 0], [0, -1, 1], [0, 0, 0]])
        elif kind == "data_tuple":
            d = tuple(data)
        elif kind == "data_array":
            d = np.stack(data)
        elif kind == "data_elem_list":
            d = [data[0], data[1].tolist()]
        elif kind == "data_elem_1d":
            d = [data[0], np.zeros(3)]
        elif kind == "data_wrong_width":
            d = [data[0], np.zeros((5, 4))]
        o = lib(DRFNet, g, d)
        must_raise(o, exc, "DRFNet(%s)" % kind)
        return ["err_" + kind]
    net = must(lib(DRFNet, graph, data), "DRFNet")
    n = {"n_float": 2.5, "n_str": "3", "n_tuple": (2, 2), "n_zero": 0, "n_negative": -3, "n_list_float": [2, 2.0],
         "n_list_zero": [3, 0], "n_list_negative": [-1, 2], "n_list_short": [5], "n_list_long": [5, 6, 7], "n_list_str": ["2", 2]}[kind]
    o = lib(net.sample, n=n, random_state=1)
    must_raise(o, exc, "DRFNet.sample(n=%r)" % (n,))
    return ["err_" + kind]


ERRORS = [("graph_list", "T"), ("graph_1d", "V"), ("graph_3d", "V"), ("graph_cyclic", "V"), ("graph_cyclic_signed", "V"),
          ("graph_selfloop", "V"), ("data_tuple", "T"), ("data_array", "T"), ("data_elem_list", "T"), ("data_elem_1d", "V"),
          ("data_wrong_width", "V"), ("n_float", "T"), ("n_str", "T"), ("n_tuple", "T"), ("n_zero", "V"), ("n_negative", "V"),
          ("n_list_float", "T"), ("n_list_zero", "V"), ("n_list_negative", "V"), ("n_list_short", "V"), ("n_list_long", "V"),
          ("n_list_str", "T")]


def _nontrivial(case, labels):
    return "nt" in labels


@st.composite
def net_case(draw):
    src = draw(st.sampled_from(["binary", "weighted", "embedded", "embedded", "two_source"]))
    if src == "binary":
        case = {"A": draw(S.dag_pattern(1, 6)), "dtype": draw(st.sampled_from(["int", "float"]))}
    elif src == "weighted":
        W, cls = draw(S.weighted_dag(2, 6, classes=("unit", "dyadic", "cancelling")))
        case = {"W": W}
    elif src == "two_source":
        # at least two sources and a collider
        A = draw(S.dag_pattern(3, 6, shapes=("collider",)))
        case = {"A": A, "dtype": "int"}
    else:
        A = draw(S.dag_pattern(3, 5, shapes=("collider", "dense", "random")))
        case = {"A": draw(S.embedded(A, 9, 11)), "dtype": "int"}
    e = draw(st.integers(1, 3))
    case["Ns"] = [draw(st.integers(8, 40)) for _ in range(e)]
    calls = []
    seeds = [draw(st.sampled_from([0, 1, 7]) | st.integers(0, 2 ** 32 - 1))]
    for c in range(draw(st.integers(2, 4))):
        nk = draw(st.sampled_from(["none", "int", "list", "int_big"]))
        n = None if nk == "none" else draw(st.integers(1, 12)) if nk == "int" else draw(st.sampled_from([25, 32, 40])) if nk == "int_big" else [draw(st.integers(1, 36)) for _ in range(e)]
        calls.append({"n": n, "seed": draw(st.sampled_from(seeds + seeds + [None])), "perturb": draw(st.sampled_from([None, 3, 99])),
                      "mutate_data": c >= 1 and draw(st.integers(0, 3)) == 0})
    # make sure one seeded configuration is repeated
    rep = dict(calls[0])
    if rep["seed"] is None:
        rep["seed"] = calls[0]["seed"] = seeds[0]
    rep["perturb"] = draw(st.sampled_from([5, 11]))
    rep["mutate_data"] = False
    calls.append(rep)
    case["calls"] = calls
    case["sub"] = "net"
    case["verbose"] = draw(st.integers(0, 3)) == 0
    return case


def plan(tier, seed):
    jobs = [{"sub": "errors", "seed": seed, "cost": 2}, {"sub": "large_data", "seed": seed, "cost": 50}]
    n = scaled(1600 if tier == "quick" else 24000)
    shards = 16 if tier == "quick" else 64
    for k in range(shards):
        jobs.append({"sub": "net", "seed": seed, "shard": k, "n": max(1, n // shards), "cost": 10})
    return jobs


def run(job):
    acc = Acc(job["sub"])
    if job["sub"] == "large_data":
        # one environment with 2^15 + 1 training rows and more than 1024 synthetic rows (n_new * n_train > 2^25):
        # implementations that process predictions in batches must still pair every row with its own parents
        case = {"sub": "net", "A": [[0, 1], [0, 0]], "dtype": "int", "Ns": [2 ** 15 + 1],
                "calls": [{"n": 1030, "seed": job["seed"] % 1000, "perturb": None, "mutate_data": False}], "verbose": False}
        try:
            acc.record(case, check(case) + ["large_data"], True, by_construction=True, sample=False)
        except Violation as v:
            acc.record(case, [], False)
            acc.violation(case, v)
        acc.exhaustive = False
        return acc
    if job["sub"] == "errors":
        for kind, exc in ERRORS:
            case = {"sub": "errors", "kind": kind, "exc": exc}
            try:
                acc.record(case, check(case), True, by_construction=True)
            except Violation as v:
                acc.record(case, [], False)
                acc.violation(case, v)
        acc.exhaustive = True
    else:
        run_property(acc, net_case(), check, _nontrivial, job["n"], job_seed(job))
        acc.exhaustive = False
    return acc


LEVEL_TEXT = ("Exploration through an injected stand-in backend: hundreds (quick) / thousands (thorough) of generated networks, data sets "
              "with globally unique values and call histories (seeded and unseeded calls, global-RNG perturbations, caller-side data "
              "mutation) are run through the unmodified sempler.semi and drf wrapper; the checker inspects both the output and the "
              "fit / predict requests that reached the backend and recomputes, per produced value, the support its forest allows for "
              "the final synthetic parents. The pinned suite cannot import this module at all.")
LEVEL_NOTE = ("Trusted: the stand-in rpy2 package in /verif/harness/fake_rpy2 (deterministic 3-NN weights + request log) and the value "
              "encoding of the generated data. Nothing is claimed about the real R forest.")
TECHNIQUE = "Hypothesis generation of (graph, data, call history) + fake-backend instrumentation + support / factorisation oracle"
DESIGN_REF = "DESIGN.md section 4, C19"
